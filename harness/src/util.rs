//! Shared helpers: PRNG, hex, a shared in-memory backing file, panic capture.
use std::io::{self, Read, Seek, SeekFrom, Write};
use std::sync::{Arc, Mutex};

/// splitmix64; every random choice of the harness derives from one of these.
#[derive(Clone)]
pub struct Rng(pub u64);

impl Rng {
    pub fn new(seed: u64) -> Rng {
        Rng(seed ^ 0x9E37_79B9_7F4A_7C15)
    }
    pub fn next(&mut self) -> u64 {
        self.0 = self.0.wrapping_add(0x9E37_79B9_7F4A_7C15);
        let mut z = self.0;
        z = (z ^ (z >> 30)).wrapping_mul(0xBF58_476D_1CE4_E5B9);
        z = (z ^ (z >> 27)).wrapping_mul(0x94D0_49BB_1331_11EB);
        z ^ (z >> 31)
    }
    pub fn below(&mut self, n: u64) -> u64 {
        if n == 0 {
            0
        } else {
            self.next() % n
        }
    }
    pub fn pick<'a, T>(&mut self, xs: &'a [T]) -> &'a T {
        &xs[self.below(xs.len() as u64) as usize]
    }
    pub fn chance(&mut self, num: u64, den: u64) -> bool {
        self.below(den) < num
    }
    pub fn fork(&mut self) -> Rng {
        Rng(self.next())
    }
}

pub fn hex(bytes: &[u8]) -> String {
    const D: &[u8; 16] = b"0123456789abcdef";
    let mut s = String::with_capacity(bytes.len() * 2 + 1);
    if bytes.is_empty() {
        s.push('-');
    }
    for &b in bytes {
        s.push(D[(b >> 4) as usize] as char);
        s.push(D[(b & 15) as usize] as char);
    }
    s
}

pub fn unhex(s: &str) -> Vec<u8> {
    if s == "-" {
        return Vec::new();
    }
    let b = s.as_bytes();
    let v = |c: u8| -> u8 {
        match c {
            b'0'..=b'9' => c - b'0',
            b'a'..=b'f' => c - b'a' + 10,
            _ => panic!("bad hex"),
        }
    };
    (0..b.len() / 2).map(|i| v(b[2 * i]) * 16 + v(b[2 * i + 1])).collect()
}

pub fn pattern(len: usize, salt: u64) -> Vec<u8> {
    (0..len).map(|i| ((i as u64).wrapping_mul(31).wrapping_add(salt * 7 + 1) % 251) as u8).collect()
}

/// In-memory file with `Cursor<Vec<u8>>` semantics whose bytes stay readable
/// from outside while a `CompoundFile` owns it.
#[derive(Clone)]
pub struct SharedFile {
    pub data: Arc<Mutex<Vec<u8>>>,
    pos: u64,
}

impl SharedFile {
    pub fn new(bytes: Vec<u8>) -> SharedFile {
        SharedFile { data: Arc::new(Mutex::new(bytes)), pos: 0 }
    }
    /// another handle on the same bytes
    pub fn alias(&self) -> SharedFile {
        SharedFile { data: self.data.clone(), pos: 0 }
    }
    pub fn snapshot(&self) -> Vec<u8> {
        self.data.lock().unwrap().clone()
    }
    pub fn len(&self) -> usize {
        self.data.lock().unwrap().len()
    }
}

impl Read for SharedFile {
    fn read(&mut self, buf: &mut [u8]) -> io::Result<usize> {
        let data = self.data.lock().unwrap();
        let start = (self.pos as usize).min(data.len());
        let n = buf.len().min(data.len() - start);
        buf[..n].copy_from_slice(&data[start..start + n]);
        self.pos += n as u64;
        Ok(n)
    }
}

impl Write for SharedFile {
    fn write(&mut self, buf: &[u8]) -> io::Result<usize> {
        let mut data = self.data.lock().unwrap();
        let start = self.pos as usize;
        if data.len() < start {
            data.resize(start, 0);
        }
        let overlap = buf.len().min(data.len() - start);
        data[start..start + overlap].copy_from_slice(&buf[..overlap]);
        data.extend_from_slice(&buf[overlap..]);
        self.pos += buf.len() as u64;
        Ok(buf.len())
    }
    fn flush(&mut self) -> io::Result<()> {
        Ok(())
    }
}

impl Seek for SharedFile {
    fn seek(&mut self, pos: SeekFrom) -> io::Result<u64> {
        let len = self.data.lock().unwrap().len() as i128;
        let new = match pos {
            SeekFrom::Start(n) => n as i128,
            SeekFrom::End(d) => len + d as i128,
            SeekFrom::Current(d) => self.pos as i128 + d as i128,
        };
        if new < 0 || new > u64::MAX as i128 {
            return Err(io::Error::new(io::ErrorKind::InvalidInput, "invalid seek"));
        }
        self.pos = new as u64;
        Ok(self.pos)
    }
}

pub fn err_kind(e: &io::Error) -> &'static str {
    match e.kind() {
        io::ErrorKind::NotFound => "notFound",
        io::ErrorKind::AlreadyExists => "alreadyExists",
        io::ErrorKind::InvalidInput => "invalidInput",
        io::ErrorKind::InvalidData => "invalidData",
        io::ErrorKind::UnexpectedEof => "unexpectedEof",
        _ => "other",
    }
}

/// Runs `f`, turning a panic into `Err(message)`.  The default hook is silenced.
pub fn catch<T>(f: impl FnOnce() -> T) -> Result<T, String> {
    let prev = IN_CATCH.with(|c| c.replace(true));
    let r = std::panic::catch_unwind(std::panic::AssertUnwindSafe(f));
    IN_CATCH.with(|c| c.set(prev));
    r.map_err(|e| {
        let msg = if let Some(s) = e.downcast_ref::<&str>() {
            s.to_string()
        } else if let Some(s) = e.downcast_ref::<String>() {
            s.clone()
        } else {
            "panic".to_string()
        };
        // the location recorded by the panic hook (when `silence_panics` installed it)
        match LAST_PANIC_LOC.with(|l| l.borrow_mut().take()) {
            Some(loc) => format!("{} @ {}", msg.replace('\n', " "), loc),
            None => msg,
        }
    })
}

pub fn silence_panics() {
    // panics inside the crate under test are expected and caught; panics of the harness itself
    // (outside catch) must stay visible
    std::panic::set_hook(Box::new(|info| {
        if !IN_CATCH.with(|c| c.get()) {
            eprintln!("harness panic: {}", info);
        } else if let Some(l) = info.location() {
            let file = l.file().rsplit("/src/").next().unwrap_or(l.file()).to_string();
            LAST_PANIC_LOC.with(|c| *c.borrow_mut() = Some(format!("{}:{}", file, l.line())));
        }
    }));
}

thread_local! {
    pub static LAST_PANIC_LOC: std::cell::RefCell<Option<String>> = const { std::cell::RefCell::new(None) };
    pub static IN_CATCH: std::cell::Cell<bool> = const { std::cell::Cell::new(false) };
}

pub fn arg<'a>(args: &'a [String], name: &str) -> Option<&'a str> {
    args.iter().position(|a| a == name).and_then(|i| args.get(i + 1)).map(|s| s.as_str())
}

pub fn arg_u64(args: &[String], name: &str, default: u64) -> u64 {
    arg(args, name).map(|s| s.parse().expect("number")).unwrap_or(default)
}


/// Hang attribution: when `VERIF_PROGRESS` names a file, every operation is appended to it (and
/// flushed) *before* it is executed; a line that starts a new script (`create …` / `new …`) truncates
/// the file first.  If the process never returns (deadlock, endless loop), the caller's watchdog kills
/// it and finds the script that hung in that file.
pub fn progress(line: &str) {
    use std::io::Write as _;
    static FILE: std::sync::Mutex<Option<(String, Option<std::fs::File>)>> = std::sync::Mutex::new(None);
    let mut g = FILE.lock().unwrap_or_else(|e| e.into_inner());
    if g.is_none() {
        *g = Some((std::env::var("VERIF_PROGRESS").unwrap_or_default(), None));
    }
    let (path, file) = g.as_mut().unwrap();
    if path.is_empty() {
        return;
    }
    let fresh = line.starts_with("create ") || line.starts_with("new ") || line.starts_with("load ");
    if fresh || file.is_none() {
        *file = std::fs::OpenOptions::new().create(true).write(true).truncate(true).open(&*path).ok();
    }
    if let Some(f) = file.as_mut() {
        let _ = writeln!(f, "{}", line);
        let _ = f.flush();
    }
}

/// Keeps the image that is about to be opened in one fixed scratch file beside the progress log and
/// logs the operation, so that a process-killing failure (allocation abort) leaves the failing input behind.
pub fn progress_image(tag: &str, bytes: &[u8]) {
    let path = std::env::var("VERIF_PROGRESS").unwrap_or_default();
    if path.is_empty() {
        return;
    }
    let img = format!("{}.img", path);
    let _ = std::fs::write(&img, bytes);
    progress(&format!("new {} {}", tag, img));
}
