//! The underlying reader/writer the compound file sits on: in-memory, a real file, or an
//! in-memory file that splits transfers (short reads/writes, `Interrupted` that succeeds on retry).
use crate::util::*;
use std::io::{self, Read, Seek, SeekFrom, Write};

#[derive(Clone, Copy, Debug, PartialEq)]
pub enum Chunking {
    OneByte,
    RandomShort,
    Interrupted,
}

pub enum Backend {
    Mem(SharedFile),
    File(std::fs::File, String),
    Chunky { inner: SharedFile, mode: Chunking, rng: Rng, toggle: bool },
}

impl Backend {
    pub fn snapshot(&mut self) -> Vec<u8> {
        match self {
            Backend::Mem(f) => f.snapshot(),
            Backend::Chunky { inner, .. } => inner.snapshot(),
            Backend::File(_, path) => std::fs::read(path).unwrap_or_default(),
        }
    }
    pub fn image_source(&self) -> ImageSource {
        match self {
            Backend::Mem(f) => ImageSource::Mem(f.clone()),
            Backend::Chunky { inner, .. } => ImageSource::Mem(inner.clone()),
            Backend::File(_, path) => ImageSource::Path(path.clone()),
        }
    }
    fn limit(&mut self, n: usize) -> io::Result<usize> {
        match self {
            Backend::Chunky { mode, rng, toggle, .. } => match mode {
                Chunking::OneByte => Ok(n.min(1)),
                Chunking::RandomShort => Ok(if n == 0 { 0 } else { 1 + rng.below(n as u64) as usize }),
                Chunking::Interrupted => {
                    *toggle = !*toggle;
                    if *toggle && rng.chance(1, 2) {
                        Err(io::Error::new(io::ErrorKind::Interrupted, "interrupted"))
                    } else {
                        Ok(n)
                    }
                }
            },
            _ => Ok(n),
        }
    }
}

#[derive(Clone)]
pub enum ImageSource {
    Mem(SharedFile),
    Path(String),
}

impl ImageSource {
    pub fn snapshot(&self) -> Vec<u8> {
        match self {
            ImageSource::Mem(f) => f.snapshot(),
            ImageSource::Path(p) => std::fs::read(p).unwrap_or_default(),
        }
    }
}

impl Read for Backend {
    fn read(&mut self, buf: &mut [u8]) -> io::Result<usize> {
        let n = self.limit(buf.len())?;
        match self {
            Backend::Mem(f) => f.read(buf),
            Backend::File(f, _) => f.read(buf),
            Backend::Chunky { inner, .. } => inner.read(&mut buf[..n]),
        }
    }
}

impl Write for Backend {
    fn write(&mut self, buf: &[u8]) -> io::Result<usize> {
        let n = self.limit(buf.len())?;
        match self {
            Backend::Mem(f) => f.write(buf),
            Backend::File(f, _) => f.write(buf),
            Backend::Chunky { inner, .. } => inner.write(&buf[..n]),
        }
    }
    fn flush(&mut self) -> io::Result<()> {
        match self {
            Backend::Mem(f) => f.flush(),
            Backend::File(f, _) => f.flush(),
            Backend::Chunky { inner, .. } => inner.flush(),
        }
    }
}

impl Seek for Backend {
    fn seek(&mut self, pos: SeekFrom) -> io::Result<u64> {
        match self {
            Backend::Mem(f) => f.seek(pos),
            Backend::File(f, _) => f.seek(pos),
            Backend::Chunky { inner, .. } => inner.seek(pos),
        }
    }
}
