//! Field-level corruptions of valid images (C05, C11, C16): header fields, DIFAT/FAT/MiniFAT cells
//! (cycles, self-loops, rho shapes, out-of-range, every special value), directory entry
//! links/types/sizes/start sectors/name lengths/colours, truncations and extensions.
use crate::util::*;

fn rd32(b: &[u8], off: usize) -> u32 {
    if off + 4 <= b.len() { u32::from_le_bytes([b[off], b[off + 1], b[off + 2], b[off + 3]]) } else { 0 }
}

fn wr32(b: &mut Vec<u8>, off: usize, v: u32) {
    if off + 4 <= b.len() {
        b[off..off + 4].copy_from_slice(&v.to_le_bytes());
    }
}

fn wr16(b: &mut Vec<u8>, off: usize, v: u16) {
    if off + 2 <= b.len() {
        b[off..off + 2].copy_from_slice(&v.to_le_bytes());
    }
}

pub struct Layout {
    pub s: usize,
    pub nsec: usize,
    pub fat_sectors: Vec<usize>,
    pub dir_sectors: Vec<usize>,
    pub minifat_sectors: Vec<usize>,
}

pub fn layout(b: &[u8]) -> Layout {
    let s = if b.len() > 30 && b[26] == 4 { 4096 } else { 512 };
    let nsec = ((b.len() + s - 1) / s).saturating_sub(1);
    let mut fat_sectors = Vec::new();
    for i in 0..109 {
        let v = rd32(b, 76 + 4 * i) as usize;
        if v < nsec {
            fat_sectors.push(v);
        }
    }
    let fat = |id: usize| -> u32 {
        let per = s / 4;
        match fat_sectors.get(id / per) {
            Some(&fs) => rd32(b, (fs + 1) * s + 4 * (id % per)),
            None => 0xffff_fffe,
        }
    };
    let chain = |start: u32| -> Vec<usize> {
        let mut v = Vec::new();
        let mut c = start as usize;
        while c < nsec && v.len() < 64 && !v.contains(&c) {
            v.push(c);
            c = fat(c) as usize;
        }
        v
    };
    Layout { s, nsec, dir_sectors: chain(rd32(b, 48)), minifat_sectors: chain(rd32(b, 60)), fat_sectors }
}

pub fn special(rng: &mut Rng, range: usize) -> u32 {
    match rng.below(12) {
        0 => 0,
        1 => 1,
        2 => 0xffff_ffff,
        3 => 0xffff_fffe,
        4 => 0xffff_fffd,
        5 => 0xffff_fffc,
        6 => 0xffff_fffb,
        7 => 0xffff_fffa,
        8 => range as u32,
        9 => (range as u32).wrapping_sub(1),
        10 => (range as u32).wrapping_add(1),
        _ => rng.below(range as u64 + 2) as u32,
    }
}

/// Applies one random corruption; returns its class name.
pub fn corrupt(rng: &mut Rng, b: &mut Vec<u8>) -> &'static str {
    // a base that is not even a header (an empty or truncated snapshot): flip one bit, nothing structured applies
    if b.len() < 512 {
        if !b.is_empty() {
            let k = rng.below(b.len() as u64) as usize;
            b[k] ^= 1;
        }
        return "tiny-image";
    }
    let l = layout(b);
    match rng.below(17) {
        0 => {
            // header scalar fields
            let (off, wide) = *rng.pick(&[(24usize, false), (26, false), (28, false), (30, false), (32, false), (40, true), (44, true), (48, true), (52, true), (56, true), (60, true), (64, true), (68, true), (72, true)]);
            if rng.chance(1, 8) {
                // the signature and the reserved CLSID field in front of the version fields
                let k = rng.below(24) as usize;
                b[k] ^= 1 << rng.below(8);
                return "header-magic-or-clsid";
            }
            if wide {
                let v = special(rng, l.nsec);
                wr32(b, off, v);
            } else {
                let v = *rng.pick(&[0u16, 3, 4, 5, 6, 9, 12, 0xfffe, 0xffff, 0x3e]);
                wr16(b, off, v);
            }
            "header-field"
        }
        1 => {
            let i = rng.below(109) as usize;
            let v = special(rng, l.nsec);
            wr32(b, 76 + 4 * i, v);
            "header-difat-slot"
        }
        2 if rng.chance(1, 2) => {
            // double pointee: some sector y is made to point where sector x already points
            // (x is sector 0 or the last sector a third of the time: the extremes of every table)
            let per = l.s / 4;
            let cell = |id: usize| l.fat_sectors.get(id / per).map(|fs| (fs + 1) * l.s + 4 * (id % per));
            if l.nsec >= 2 {
                let x = match rng.below(6) { 0 | 1 => 0, 2 => l.nsec - 1, _ => rng.below(l.nsec as u64) as usize };
                let y = rng.below(l.nsec as u64) as usize;
                if let (Some(cx), Some(cy)) = (cell(x), cell(y)) {
                    let succ = rd32(b, cx);
                    if x != y && succ < 0xffff_fffa {
                        wr32(b, cy, succ);
                    }
                }
            }
            "fat-double-pointee"
        }
        2 | 3 | 4 => {
            // a FAT cell
            if let Some(&fs) = l.fat_sectors.get(rng.below(l.fat_sectors.len().max(1) as u64) as usize) {
                let per = l.s / 4;
                let idx = rng.below((l.nsec.min(per) + 2) as u64) as usize % per;
                let v = match rng.below(4) {
                    0 => idx as u32,                              // self loop
                    1 => rng.below(l.nsec as u64 + 1) as u32,     // another cell: cycles, rho, double pointee
                    _ => special(rng, l.nsec),
                };
                wr32(b, (fs + 1) * l.s + 4 * idx, v);
            }
            "fat-cell"
        }
        5 | 6 => {
            if let Some(&ms) = l.minifat_sectors.first() {
                let per = l.s / 4;
                let idx = rng.below(per.min(40) as u64) as usize;
                let v = match rng.below(4) {
                    0 => idx as u32,
                    1 => rng.below(40) as u32,
                    _ => special(rng, 32),
                };
                wr32(b, (ms + 1) * l.s + 4 * idx, v);
                "minifat-cell"
            } else {
                wr32(b, 60, special(rng, l.nsec));
                "header-field"
            }
        }
        7..=12 => {
            // a directory entry field
            if l.dir_sectors.is_empty() {
                return "none";
            }
            let per = l.s / 128;
            let n = l.dir_sectors.len() * per;
            // prefer an entry that is in use (a few tries), so that link corruptions sit where open walks
            let mut i = rng.below(n.min(12) as u64) as usize;
            for _ in 0..3 {
                let bs = (l.dir_sectors[i / per] + 1) * l.s + (i % per) * 128;
                if bs + 67 < b.len() && b[bs + 66] != 0 {
                    break;
                }
                i = rng.below(n.min(12) as u64) as usize;
            }
            let base = (l.dir_sectors[i / per] + 1) * l.s + (i % per) * 128;
            match rng.below(12) {
                0 => { wr16(b, base + 64, *rng.pick(&[0u16, 1, 2, 3, 62, 64, 65, 66, 0xffff])); "dir-name-len" }
                1 => { if base + 66 < b.len() { b[base + 66] = *rng.pick(&[0u8, 1, 2, 3, 4, 5, 6, 255]); } "dir-type" }
                2 => { if base + 67 < b.len() { b[base + 67] = *rng.pick(&[0u8, 1, 2, 255]); } "dir-colour" }
                3 | 4 => { let v = match rng.below(5) { 0 => i as u32, 1 => rng.below(n as u64 + 2) as u32, 2 => n as u32, 3 => (n as u32).wrapping_sub(1), _ => special(rng, n) }; wr32(b, base + 68 + 4 * rng.below(3) as usize, v); "dir-link" }
                5 | 6 => { let v = special(rng, l.nsec); wr32(b, base + 116, v); "dir-start-sector" }
                7 | 8 => {
                    let mut v: u64 = *rng.pick(&[0u64, 1, 63, 64, 65, 4095, 4096, 4097, 1 << 20, 1 << 31, (1 << 32) - 1, 1 << 32, u64::MAX, 100, 5000, 1 << 63, (1 << 63) + 10, 0xFFFF_FFFF_FFFF_FFF0, u64::MAX - 1]);
                    if rng.chance(1, 3) && base + 128 <= b.len() {
                        // a little more than the chain holds (the recorded size off by a few bytes beyond the last
                        // (mini) sector, on the same side of the cutoff): the shortfall shows up in the last window
                        let cur = u64::from_le_bytes(b[base + 120..base + 128].try_into().unwrap()) & 0xFFFF_FFFF;
                        let unit = if cur < 4096 { 64 } else { l.s as u64 };
                        let cap = (cur + unit - 1) / unit * unit;
                        let w = cap + 1 + rng.below(unit.min(63));
                        if (cur < 4096) == (w < 4096) && cur > 0 {
                            v = w;
                        }
                    }
                    if base + 128 <= b.len() { b[base + 120..base + 128].copy_from_slice(&v.to_le_bytes()); }
                    "dir-stream-len"
                }
                9 => { wr16(b, base + 2 * rng.below(8) as usize, *rng.pick(&[0u16, 0x2f, 0x3a, 0xd800, 0xdc00, 0xdfff, 0x41, 0xffff])); "dir-name-unit" }
                10 => { if base + 96 <= b.len() { for k in 80..96 { b[base + k] = rng.next() as u8; } } "dir-clsid" }
                _ => { if base + 116 <= b.len() { for k in 100..116 { b[base + k] = rng.next() as u8; } } "dir-times" }
            }
        }
        13 => {
            // truncation to a sector boundary +-1 or anywhere
            let cut = match rng.below(3) {
                0 => (1 + rng.below(l.nsec as u64 + 1) as usize) * l.s + rng.below(3) as usize - 1,
                1 => rng.below(b.len() as u64 + 1) as usize,
                _ => b.len().saturating_sub(1 + rng.below(l.s as u64) as usize),
            };
            b.truncate(cut.min(b.len()));
            "truncate"
        }
        14 => {
            let extra = match rng.below(3) { 0 => l.s, 1 => l.s * (1 + rng.below(200) as usize), _ => 1 + rng.below(l.s as u64 * 2) as usize };
            let fill = *rng.pick(&[0u8, 0xff, 0xfe]);
            b.extend(std::iter::repeat(fill).take(extra));
            "extend"
        }
        15 => {
            // a crafted DIFAT chain: 2-4 sectors appended to the file, every entry FREE, successor
            // pointers forming a straight chain, a self-loop, a loop back to the first or to a later
            // sector (rho shapes); the header's first-DIFAT-sector field points at the first, the count
            // is right, too small or too large
            let k = 2 + rng.below(3) as usize;
            let pad = (l.s - b.len() % l.s) % l.s;
            b.extend(std::iter::repeat(0u8).take(pad));
            let first = b.len() / l.s - 1;
            let ids: Vec<usize> = (0..k).map(|i| first + i).collect();
            let back = match rng.below(5) { 0 => None, 1 => Some(k - 1), 2 => Some(0), _ => Some(rng.below(k as u64) as usize) };
            for i in 0..k {
                let mut sec = vec![0xffu8; l.s];
                let next: u32 = if i + 1 < k { ids[i + 1] as u32 } else { match back { None => 0xffff_fffe, Some(j) => ids[j] as u32 } };
                sec[l.s - 4..].copy_from_slice(&next.to_le_bytes());
                b.extend(sec);
            }
            wr32(b, 68, first as u32);
            wr32(b, 72, match rng.below(4) { 0 => 0, 1 => k as u32 + 1, _ => k as u32 });
            "difat-chain-crafted"
        }
        _ => {
            // random bytes somewhere behind the header
            if b.len() > 600 {
                let off = 512 + rng.below(b.len() as u64 - 520) as usize;
                let n = 1 + rng.below(16) as usize;
                for k in 0..n.min(b.len() - off) {
                    b[off + k] = rng.next() as u8;
                }
            }
            "random-bytes"
        }
    }
}

/// Writes `count` corrupted variants of the images in `bases` to `outdir`; prints the list file.
pub fn run(seed: u64, bases: &str, outdir: &str, count: u64, list_path: &str) {
    let mut rng = Rng::new(seed);
    let files: Vec<String> = std::fs::read_to_string(bases).unwrap().lines().filter(|l| !l.is_empty()).map(|s| s.to_string()).collect();
    let images: Vec<Vec<u8>> = files.iter().filter_map(|f| std::fs::read(f).ok()).filter(|b| b.len() >= 1536).collect();
    std::fs::create_dir_all(outdir).unwrap();
    let mut list = String::new();
    let mut hist = std::collections::BTreeMap::new();
    for k in 0..count {
        let mut b = rng.pick(&images).clone();
        let n = 1 + rng.below(3);
        let mut classes = Vec::new();
        for _ in 0..n {
            classes.push(corrupt(&mut rng, &mut b));
        }
        for c in &classes {
            *hist.entry(*c).or_insert(0u64) += 1;
        }
        let path = format!("{}/m{}.cfb", outdir, k);
        std::fs::write(&path, &b).unwrap();
        list.push_str(&path);
        list.push('\n');
    }
    std::fs::write(list_path, list).unwrap();
    for (k, v) in hist {
        println!("HIST mut:{} {}", k, v);
    }
}
