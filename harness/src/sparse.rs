//! C05 on files larger than 4 GiB: a well-formed compound file synthesised on the fly by a sparse `Read + Seek`
//! source (no disk space, a sector of memory), whose one stream (4096 bytes) ends in a sector at or beyond byte 2^32.
//! Opening it in both modes, walking it and reading the stream must give values or errors — never a panic — and
//! on a tree that reads such files correctly the bytes of the stream.
//!
//! Layout (sector ids): 0 = FAT sector #0, 1 = directory, 2 .. 2+nd-1 = DIFAT sectors, then FAT sectors #1 ..,
//! `far` = the stream's sector (the last sector of the file); everything else is free.
use crate::util::*;
use cfb::CompoundFile;
use std::io::{self, Read, Seek, SeekFrom};

const FATSECT: u32 = 0xffff_fffd;
const DIFSECT: u32 = 0xffff_fffc;
const END: u32 = 0xffff_fffe;
const FREE: u32 = 0xffff_ffff;

pub struct Sparse {
    v4: bool,
    far: u32,
    len: u64,
    pos: u64,
    cached: u64,
    cache: Vec<u8>,
}

fn p16(b: &mut [u8], at: usize, v: u16) { b[at..at + 2].copy_from_slice(&v.to_le_bytes()); }
fn p32(b: &mut [u8], at: usize, v: u32) { b[at..at + 4].copy_from_slice(&v.to_le_bytes()); }
fn p64(b: &mut [u8], at: usize, v: u64) { b[at..at + 8].copy_from_slice(&v.to_le_bytes()); }
pub fn stream_byte(i: usize) -> u8 { (i % 251) as u8 }

impl Sparse {
    pub fn new(v4: bool, far: u32) -> Sparse {
        let s = if v4 { 4096u64 } else { 512 };
        Sparse { v4, far, len: (far as u64 + 2) * s, pos: 0, cached: u64::MAX, cache: vec![0u8; s as usize] }
    }
    fn s(&self) -> u64 { if self.v4 { 4096 } else { 512 } }
    /// the stream has 4096 bytes (the smallest size that is not kept in the mini stream): one sector in version 4,
    /// eight consecutive sectors ending at `far` in version 3
    fn first(&self) -> u32 { self.far + 1 - (4096 / self.s()) as u32 }
    fn per(&self) -> u32 { (self.s() / 4) as u32 }
    fn num_fat(&self) -> u32 { self.far / self.per() + 1 }
    fn num_difat(&self) -> u32 {
        let n = self.num_fat();
        if n <= 109 { 0 } else { (n - 109).div_ceil(self.per() - 1) }
    }
    fn fat_sector_id(&self, k: u32) -> u32 { if k == 0 { 0 } else { 1 + self.num_difat() + k } }
    fn last_fat_sector(&self) -> u32 { self.fat_sector_id(self.num_fat() - 1) }
    fn fat_entry(&self, sector: u32) -> u32 {
        if sector == 0 { FATSECT }
        else if sector == 1 { END }
        else if sector < 2 + self.num_difat() { DIFSECT }
        else if sector <= self.last_fat_sector() { FATSECT }
        else if sector >= self.first() && sector < self.far { sector + 1 }
        else if sector == self.far { END }
        else { FREE }
    }
    fn fill(&mut self, slot: u64) {
        let mut buf = std::mem::take(&mut self.cache);
        buf.iter_mut().for_each(|b| *b = 0);
        let per = self.per();
        if slot == 0 {
            buf[0..8].copy_from_slice(&[0xd0, 0xcf, 0x11, 0xe0, 0xa1, 0xb1, 0x1a, 0xe1]);
            p16(&mut buf, 24, 0x3e);
            p16(&mut buf, 26, if self.v4 { 4 } else { 3 });
            p16(&mut buf, 28, 0xfffe);
            p16(&mut buf, 30, if self.v4 { 12 } else { 9 });
            p16(&mut buf, 32, 6);
            p32(&mut buf, 40, if self.v4 { 1 } else { 0 });
            p32(&mut buf, 44, self.num_fat());
            p32(&mut buf, 48, 1);
            p32(&mut buf, 56, 4096);
            p32(&mut buf, 60, END);
            p32(&mut buf, 64, 0);
            p32(&mut buf, 68, if self.num_difat() > 0 { 2 } else { END });
            p32(&mut buf, 72, self.num_difat());
            for i in 0..109u32 {
                let v = if i < self.num_fat() { self.fat_sector_id(i) } else { FREE };
                p32(&mut buf, 76 + 4 * i as usize, v);
            }
        } else {
            let sector = (slot - 1) as u32;
            if sector == 1 {
                for e in 0..(self.s() as usize / 128) {
                    let ent = &mut buf[128 * e..128 * (e + 1)];
                    p32(ent, 68, FREE);
                    p32(ent, 72, FREE);
                    p32(ent, 76, FREE);
                }
                let root = &mut buf[0..128];
                for (i, u) in "Root Entry".encode_utf16().enumerate() { p16(root, 2 * i, u); }
                p16(root, 64, 22);
                root[66] = 5;
                root[67] = 1;
                p32(root, 76, 1);
                p32(root, 116, END);
                let big = &mut buf[128..256];
                for (i, u) in "big".encode_utf16().enumerate() { p16(big, 2 * i, u); }
                p16(big, 64, 8);
                big[66] = 2;
                big[67] = 1;
                p32(big, 116, self.first());
                p64(big, 120, 4096);
            } else if sector >= 2 && sector < 2 + self.num_difat() {
                let d = sector - 2;
                for i in 0..(per - 1) {
                    let k = 109 + d * (per - 1) + i;
                    let v = if k < self.num_fat() { self.fat_sector_id(k) } else { FREE };
                    p32(&mut buf, 4 * i as usize, v);
                }
                p32(&mut buf, 4 * (per as usize - 1), if d + 1 < self.num_difat() { sector + 1 } else { END });
            } else if sector == 0 || (sector >= 2 + self.num_difat() && sector <= self.last_fat_sector()) {
                let k = if sector == 0 { 0 } else { sector - 1 - self.num_difat() };
                for i in 0..per {
                    let v = self.fat_entry(k * per + i);
                    p32(&mut buf, 4 * i as usize, v);
                }
            } else if sector >= self.first() && sector <= self.far {
                let base = (sector - self.first()) as usize * self.s() as usize;
                for (i, b) in buf.iter_mut().enumerate() { *b = stream_byte(base + i); }
            }
        }
        self.cache = buf;
        self.cached = slot;
    }
}

impl Read for Sparse {
    fn read(&mut self, buf: &mut [u8]) -> io::Result<usize> {
        if self.pos >= self.len || buf.is_empty() { return Ok(0); }
        let s = self.s();
        let slot = self.pos / s;
        let off = (self.pos % s) as usize;
        if slot != self.cached { self.fill(slot); }
        let n = buf.len().min(s as usize - off);
        buf[..n].copy_from_slice(&self.cache[off..off + n]);
        self.pos += n as u64;
        Ok(n)
    }
}

impl Seek for Sparse {
    fn seek(&mut self, pos: SeekFrom) -> io::Result<u64> {
        let np = match pos {
            SeekFrom::Start(p) => p as i128,
            SeekFrom::End(d) => self.len as i128 + d as i128,
            SeekFrom::Current(d) => self.pos as i128 + d as i128,
        };
        if np < 0 || np > u64::MAX as i128 { return Err(io::Error::new(io::ErrorKind::InvalidInput, "seek out of range")); }
        self.pos = np as u64;
        Ok(self.pos)
    }
}

fn exercise(v4: bool, far: u32, strict: bool) -> Result<Vec<u8>, String> {
    let src = Sparse::new(v4, far);
    let mut comp = (if strict { CompoundFile::open_strict(src) } else { CompoundFile::open(src) }).map_err(|e| format!("open: err {}", err_kind(&e)))?;
    let n = comp.walk().count();
    if n != 2 { return Err(format!("walk lists {} entries, the file has 2", n)); }
    if !comp.is_stream("/big") { return Err("is_stream(/big) is false".into()); }
    let mut st = comp.open_stream("/big").map_err(|e| format!("open_stream: err {}", err_kind(&e)))?;
    let mut data = Vec::new();
    st.read_to_end(&mut data).map_err(|e| format!("read_to_end: err {}", err_kind(&e)))?;
    st.seek(SeekFrom::Start(100)).map_err(|e| format!("seek: err {}", err_kind(&e)))?;
    let mut four = [0u8; 4];
    st.read_exact(&mut four).map_err(|e| format!("read_exact: err {}", err_kind(&e)))?;
    if data.len() >= 104 && four[..] != data[100..104] { return Err("a second read at offset 100 returns other bytes than the first".into()); }
    Ok(data)
}

/// Sectors around byte 2^32 in both versions, both modes.
pub fn run() {
    let mut evaluations = 0u64;
    for (v4, fars) in [(true, vec![(1u32 << 20) - 2, (1 << 20) - 1, (1 << 20) + 10]), (false, vec![(1u32 << 23) - 2, (1 << 23) - 1, (1 << 23) + 77])] {
        for far in fars {
            for strict in [true, false] {
                evaluations += 1;
                progress(&format!("new sparse v{} far {} strict {}", if v4 { 4 } else { 3 }, far, strict));
                let want: Vec<u8> = (0..4096).map(stream_byte).collect();
                let what = format!("a well-formed version-{} file of {} bytes (sparse source) whose stream /big ends in sector {}, at byte {}: {}", if v4 { 4 } else { 3 },
                    (far as u64 + 2) * if v4 { 4096 } else { 512 }, far, (far as u64 + 1) * if v4 { 4096 } else { 512 }, if strict { "open_strict" } else { "open" });
                match catch(|| exercise(v4, far, strict)) {
                    Err(m) => println!("ORACLE sparse: {}, walk, open_stream, read: a call panicked ({})", what, m),
                    Ok(Err(e)) => println!("ORACLE sparse: {} — {} (the file is well-formed)", what, e),
                    Ok(Ok(d)) => {
                        if d != want {
                            let k = d.iter().zip(want.iter()).position(|(a, b)| a != b).unwrap_or(d.len().min(want.len()));
                            println!("ORACLE sparse: {} — the stream reads {} bytes, first difference from its content at {}", what, d.len(), k);
                        }
                    }
                }
            }
        }
    }
    println!("STAT sparse_evaluations {}", evaluations);
}
