//! C09 (pure part): differential test of path.rs through hook H2, and the upper-casing table dump.
//!
//! ops file lines (scalars are comma-separated hex, `-` for the empty string):
//!   validate <name> | cmp <a> <b> | chain <path>
//! impl file: `ok` / `err invalidInput` | `lt`/`eq`/`gt` | `ok <name>/<name>/...` (`ok` alone = root) / `err invalidInput`
use crate::util::*;
use std::cmp::Ordering;
use std::fmt::Write as _;
use std::path::Path;

/// The upper-casing the property speaks of, computed WITHOUT calling the library: the override table
/// `src/internal/uppercase.txt` (read as data from the working tree) over the toolchain's simple
/// mapping `char::to_uppercase().next()`.
pub fn spec_upper(c: char) -> char {
    static T: std::sync::OnceLock<std::collections::HashMap<char, char>> = std::sync::OnceLock::new();
    let t = T.get_or_init(|| {
        let repo = std::env::var("VERIF_REPO").unwrap_or_else(|_| "/repo".into());
        let txt = std::fs::read_to_string(format!("{}/src/internal/uppercase.txt", repo)).expect("uppercase.txt");
        let cs: Vec<char> = txt.chars().collect();
        let mut m = std::collections::HashMap::new();
        let mut i = 0;
        // entries look like ('x', 'y')
        while i + 9 < cs.len() {
            if cs[i] == '(' && cs[i + 1] == '\'' && cs[i + 3] == '\'' && cs[i + 4] == ',' && cs[i + 6] == '\'' && cs[i + 8] == '\'' && cs[i + 9] == ')' {
                m.insert(cs[i + 2], cs[i + 7]);
                i += 10;
            } else {
                i += 1;
            }
        }
        m
    });
    t.get(&c).copied().or(c.to_uppercase().next()).unwrap_or_default()
}

/// Dumps `spec_upper` (every scalar whose image differs from itself) for the translator, and checks the
/// library's `cfb_uppercase_char` (hook H2) against it for all 0x110000 scalars.
pub fn upper_dump(path: &str) {
    let mut out = String::new();
    let mut bad = 0;
    for c in 0..=0x10FFFFu32 {
        if let Some(ch) = char::from_u32(c) {
            let u = spec_upper(ch);
            if u as u32 != c {
                writeln!(out, "{} {}", c, u as u32).unwrap();
            }
            let got = catch(|| cfb::verif::uppercase_char(ch));
            if got != Ok(u) {
                bad += 1;
                if bad <= 20 {
                    let g = got.map(|g| format!("{:x}", g as u32)).unwrap_or_else(|_| "panic".into());
                    println!("ORACLE upper {:x} gave {} table {:x}", c, g, u as u32);
                }
            }
            // simple capitalisation: a character whose full upper-casing expands must be overridden,
            // or it would alias the first character of the expansion
            if ch.to_uppercase().count() > 1 && u == ch.to_uppercase().next().unwrap() && u != ch {
                println!("ORACLE upper-alias {:x} maps to {:x}, the first unit of a multi-character expansion", c, u as u32);
            }
        }
    }
    println!("STAT upper_scalars_checked {}", 0x110000 - 0x800);
    println!("STAT upper_mismatches {}", bad);
    std::fs::write(path, out).unwrap();
}

pub fn enc(s: &str) -> String {
    if s.is_empty() {
        return "-".into();
    }
    s.chars().map(|c| format!("{:x}", c as u32)).collect::<Vec<_>>().join(",")
}

pub fn dec(s: &str) -> String {
    if s == "-" {
        return String::new();
    }
    s.split(',').map(|h| char::from_u32(u32::from_str_radix(h, 16).unwrap()).unwrap_or('\u{fffd}')).collect()
}

/// like `dec`, for paths that need not be text: a value `0x110000 + b` stands for the raw byte `b`
/// (the generator only uses bytes that cannot occur in valid UTF-8)
pub fn dec_os(s: &str) -> std::ffi::OsString {
    use std::os::unix::ffi::OsStringExt;
    if s == "-" {
        return std::ffi::OsString::new();
    }
    let mut bytes = Vec::new();
    for h in s.split(',') {
        let v = u32::from_str_radix(h, 16).unwrap();
        match char::from_u32(v) {
            Some(c) if v < 0x110000 => {
                let mut buf = [0u8; 4];
                bytes.extend_from_slice(c.encode_utf8(&mut buf).as_bytes());
            }
            _ => bytes.push((v & 0xff) as u8),
        }
    }
    std::ffi::OsString::from_vec(bytes)
}

/// replaces one element of an encoded path (not a slash, not a dot) by a byte that is not text
pub fn poison(encoded: &str, rng: &mut Rng) -> String {
    let mut parts: Vec<String> = encoded.split(',').map(|x| x.to_string()).collect();
    let cand: Vec<usize> = parts.iter().enumerate().filter(|(_, h)| *h != "2f" && *h != "2e" && *h != "-").map(|(i, _)| i).collect();
    if cand.is_empty() {
        return encoded.to_string();
    }
    let i = *rng.pick(&cand);
    parts[i] = format!("{:x}", 0x110000 + *rng.pick(&[0xffu32, 0xfe, 0xc0, 0xc1, 0xf8, 0x80]));
    parts.join(",")
}

/// Characters by class; the generator mixes classes inside one name.
pub fn gen_char(rng: &mut Rng, class: u64) -> char {
    let exceptional: &[char] = &['ß', 'ŉ', 'ǰ', 'ΐ', 'ΰ', 'և', 'ẖ', 'ẞ', 'ᾀ', 'ᾈ', 'ᾳ', 'ῃ', 'ῳ', 'ﬁ', 'ﬀ', 'ǅ', 'ǆ', 'Ǆ', 'ı', 'İ', 'ſ', 'K', 'Å', 'µ', 'ͅ'];
    match class {
        0 => *rng.pick(&['a', 'b', 'c', 'A', 'B', 'C', 'z', 'Z', '_', '0', '9', ' ', '.', '~', '@', '[', '`', '{']),
        1 => *rng.pick(&['é', 'É', 'ö', 'Ö', 'ñ', 'Ñ', 'я', 'Я', 'ω', 'Ω', 'σ', 'ς', 'Σ', 'ÿ', 'Ÿ']),
        2 => *rng.pick(exceptional),
        3 => *rng.pick(&['中', '文', 'あ', 'ア', '한', 'ก', 'א', '\u{0301}', '\u{200d}']),
        4 => *rng.pick(&['\u{10000}', '\u{10400}', '\u{10428}', '\u{1F600}', '\u{1D7FF}', '\u{10FFFF}', '\u{10D70}', '\u{10D50}', '\u{1E900}', '\u{1E922}']),
        5 => *rng.pick(&['\u{E000}', '\u{F8FF}', '\u{FFFD}', '\u{FFFF}', '\u{FF21}', '\u{FF41}', '\u{FB00}', '\u{D7FF}']),
        6 => *rng.pick(&['/', '\\', ':', '!']),
        _ => char::from_u32(rng.below(0x11_0000) as u32).unwrap_or('x'),
    }
}

pub fn gen_name(rng: &mut Rng) -> String {
    let len = *rng.pick(&[0usize, 1, 1, 2, 2, 3, 3, 4, 5, 8, 15, 16, 30, 31, 32, 33, 40]);
    let style = rng.below(8);
    let mut s = String::new();
    // U+0000 is an ordinary (valid) character of a name: sometimes inside, sometimes at the end
    let nul_at = if rng.chance(1, 12) && len > 0 { Some(if rng.chance(1, 2) { len - 1 } else { rng.below(len as u64) as usize }) } else { None };
    for i in 0..len {
        if nul_at == Some(i) {
            s.push('\u{0}');
            continue;
        }
        let class = match style {
            0 | 1 => 0,
            2 => *rng.pick(&[0, 1]),
            3 => *rng.pick(&[0, 1, 2]),
            4 => *rng.pick(&[4, 5, 0]),
            5 => *rng.pick(&[0, 0, 0, 6]),
            6 => 7,
            _ => rng.below(6),
        };
        s.push(gen_char(rng, class));
    }
    s
}

/// A name related to `a`: case variant, one char changed, prefix, same.
pub fn related(rng: &mut Rng, a: &str) -> String {
    let chars: Vec<char> = a.chars().collect();
    match rng.below(6) {
        0 => a.to_uppercase(),
        1 => a.to_lowercase(),
        2 => chars.iter().map(|&c| if rng.chance(1, 2) { spec_upper(c) } else { c }).collect(),
        3 if !chars.is_empty() => {
            let mut v = chars.clone();
            let i = rng.below(v.len() as u64) as usize;
            let class = rng.below(6);
            v[i] = gen_char(rng, class);
            v.into_iter().collect()
        }
        4 if !chars.is_empty() => chars[..chars.len() - 1].iter().collect(),
        _ => a.to_string(),
    }
}

pub fn gen_path(rng: &mut Rng) -> String {
    let mut s = String::new();
    if rng.chance(1, 2) {
        s.push('/');
    }
    let n = rng.below(6);
    for i in 0..n {
        let comp = match rng.below(10) {
            0 => ".".to_string(),
            1 | 2 => "..".to_string(),
            3 => String::new(),
            4 => "...".to_string(),
            _ => {
                let mut r2 = rng.fork();
                let nm = gen_name(&mut r2);
                nm.replace('/', "x")
            }
        };
        s.push_str(&comp);
        if i + 1 < n || rng.chance(1, 3) {
            s.push('/');
            if rng.chance(1, 8) {
                s.push('/');
            }
        }
    }
    s
}

fn ord(o: Ordering) -> &'static str {
    match o {
        Ordering::Less => "lt",
        Ordering::Equal => "eq",
        Ordering::Greater => "gt",
    }
}

pub fn exec(line: &str) -> String {
    let t: Vec<&str> = line.split_whitespace().collect();
    match t.as_slice() {
        ["validate", n] => match cfb::verif::validate_name(&dec(n)) {
            Ok(_) => "ok".into(),
            Err(e) => format!("err {}", err_kind(&e)),
        },
        ["cmp", a, b] => ord(cfb::verif::compare_names(&dec(a), &dec(b))).into(),
        ["chain", p] => {
            let p = dec_os(p);
            match cfb::verif::name_chain_from_path(Path::new(&p)) {
                Ok(names) => {
                    let mut s = "ok".to_string();
                    for (i, n) in names.iter().enumerate() {
                        s.push(if i == 0 { ' ' } else { '/' });
                        s.push_str(&enc(n));
                    }
                    s
                }
                Err(e) => format!("err {}", err_kind(&e)),
            }
        }
        _ => "bad-op".into(),
    }
}

/// Independent oracle for the order: MS-CFB 2.6.4 — shorter (in UTF-16 units) first, then by
/// upper-cased UTF-16 code units; upper-casing is `spec_upper` (uppercase.txt as data over std's simple mapping), not the library function.
pub fn spec_cmp(a: &str, b: &str) -> Ordering {
    let key = |s: &str| -> (usize, Vec<u16>) {
        let n = s.encode_utf16().count();
        let mut v = Vec::new();
        for c in s.chars() {
            let u = spec_upper(c);
            let mut buf = [0u16; 2];
            v.extend_from_slice(u.encode_utf16(&mut buf));
        }
        (n, v)
    };
    key(a).cmp(&key(b))
}

pub fn spec_valid(name: &str) -> bool {
    name.encode_utf16().count() <= 31 && !name.contains(['/', '\\', ':', '!'])
}

pub fn campaign(seed: u64, count: u64, ops_path: &str, impl_path: &str) -> (std::collections::BTreeMap<String, u64>, Vec<String>) {
    let mut rng = Rng::new(seed);
    let mut ops = String::new();
    let mut imp = String::new();
    let mut hist = std::collections::BTreeMap::new();
    let mut violations = Vec::new();
    for _ in 0..count {
        let line = match rng.below(10) {
            0..=2 => format!("validate {}", enc(&gen_name(&mut rng))),
            3..=7 => {
                let a = gen_name(&mut rng);
                let b = if rng.chance(1, 2) { related(&mut rng, &a) } else { gen_name(&mut rng) };
                format!("cmp {} {}", enc(&a), enc(&b))
            }
            _ => {
                let e = enc(&gen_path(&mut rng));
                // one path in ten has a component that is not valid UTF-8
                format!("chain {}", if rng.chance(1, 10) { poison(&e, &mut rng) } else { e })
            }
        };
        let out = catch(|| exec(&line)).unwrap_or_else(|_| "panic".into());
        let t: Vec<&str> = line.split_whitespace().collect();
        *hist.entry(format!("{}:{}", t[0], out.split(' ').take(2).collect::<Vec<_>>().join(" ").chars().take(20).collect::<String>().split(' ').next().unwrap())).or_insert(0u64) += 1;
        match t.as_slice() {
            ["validate", n] => {
                let expect = if spec_valid(&dec(n)) { "ok" } else { "err invalidInput" };
                if out != expect {
                    violations.push(format!("{} gave {}, the rule (<= 31 UTF-16 units, none of / \\ : !) says {}", line, out, expect));
                }
            }
            ["cmp", a, b] => {
                let expect = ord(spec_cmp(&dec(a), &dec(b)));
                if out != expect {
                    violations.push(format!("{} gave {}, CFB order (UTF-16 length, then upper-cased code units) says {}", line, out, expect));
                }
            }
            ["chain", pth] => {
                // the rule of the property, on the code list: split at '/', drop empty and '.' components,
                // '..' removes the last name (InvalidInput when there is none), a component that is not
                // text is InvalidInput; a leading '/' changes nothing
                let codes: Vec<u32> = if *pth == "-" { vec![] } else { pth.split(',').map(|h| u32::from_str_radix(h, 16).unwrap()).collect() };
                let mut names: Vec<Vec<u32>> = Vec::new();
                let mut bad = false;
                for comp in codes.split(|c| *c == 0x2f) {
                    if comp.is_empty() || comp == [0x2e] {
                        continue;
                    }
                    if comp == [0x2e, 0x2e] {
                        if names.pop().is_none() {
                            bad = true;
                            break;
                        }
                    } else if comp.iter().any(|c| *c >= 0x110000) {
                        bad = true;
                        break;
                    } else {
                        names.push(comp.to_vec());
                    }
                }
                let expect = if bad {
                    "err invalidInput".to_string()
                } else if names.is_empty() {
                    "ok".to_string()
                } else {
                    format!("ok {}", names.iter().map(|n| n.iter().map(|c| format!("{:x}", c)).collect::<Vec<_>>().join(",")).collect::<Vec<_>>().join("/"))
                };
                if out != expect {
                    violations.push(format!("{} gave {}, path normalisation (drop empty and '.' components, '..' removes the last name, escaping the root or a non-UTF-8 component is InvalidInput) says {}", line, out, expect));
                }
            }
            _ => {
                if out == "panic" {
                    violations.push(format!("{} panicked", line));
                }
            }
        }
        writeln!(ops, "{}", line).unwrap();
        writeln!(imp, "{}", out).unwrap();
    }
    std::fs::write(ops_path, ops).unwrap();
    std::fs::write(impl_path, imp).unwrap();
    (hist, violations)
}

pub fn replay(ops_path: &str, impl_path: &str) {
    let text = std::fs::read_to_string(ops_path).unwrap();
    let mut imp = String::new();
    for line in text.lines() {
        let out = catch(|| exec(line)).unwrap_or_else(|_| "panic".into());
        writeln!(imp, "{}", out).unwrap();
    }
    std::fs::write(impl_path, imp).unwrap();
}
