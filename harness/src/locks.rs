//! C14: (1) per-call lock traces through hook H1 (hold depth at every acquisition) for every public
//! read-only method, both iterator orders to exhaustion and every handle operation;
//! (2) a steered two-thread schedule that parks a reader between two acquisitions while a writer
//! starts waiting; (3) an unsteered stress run.
use crate::util::*;
use cfb::verif::{verif_set_gate, verif_start_recording, verif_take_events, VerifLockEvent};
use cfb::{CompoundFile, Version};
use std::fmt::Write as _;
use std::io::{BufRead, Read, Seek, SeekFrom, Write};
use std::sync::atomic::{AtomicBool, AtomicUsize, Ordering};
use std::sync::{mpsc, Arc};
use std::time::Duration;

fn build(version: Version) -> CompoundFile<SharedFile> {
    let mut comp = CompoundFile::create_with_version(version, SharedFile::new(Vec::new())).unwrap();
    // sibling trees with left and right spines and nested children
    for name in ["m", "c", "x", "a", "e", "t", "z", "b", "d"] {
        comp.create_storage(format!("/{}", name)).unwrap();
    }
    for name in ["k", "f", "p", "g", "q"] {
        comp.create_storage(format!("/m/{}", name)).unwrap();
        comp.create_stream(format!("/m/{}/s", name)).unwrap().write_all(&pattern(100, 1)).unwrap();
    }
    comp.create_stream("/m/k/big").unwrap().write_all(&pattern(9000, 2)).unwrap();
    comp.create_stream("/s1").unwrap().write_all(&pattern(5000, 3)).unwrap();
    comp.create_stream("/s2").unwrap().write_all(&pattern(50, 4)).unwrap();
    comp
}

fn render(events: &[VerifLockEvent]) -> String {
    events.iter().map(|e| format!("{}{}", if e.write { "W" } else { "R" }, e.depth_before)).collect::<Vec<_>>().join(" ")
}

/// ops: `call <name> <events>`; impl: `flat` / `notflat <first site>`
pub fn traces(ops_path: &str, impl_path: &str) {
    let mut ops = String::new();
    let mut imp = String::new();
    for version in [Version::V3, Version::V4] {
        let mut comp = build(version);
        let mut record = |name: &str, f: &mut (dyn FnMut(&mut CompoundFile<SharedFile>) + Send)| {
            verif_start_recording();
            // a call that acquires the lock while the same thread holds it for writing never returns:
            // run it on a scoped thread and give up (whole process) after 20 s
            let finished = std::thread::scope(|sc| {
                let (tx, rx) = mpsc::channel::<()>();
                let comp = &mut comp;
                sc.spawn(move || {
                    f(comp);
                    let _ = tx.send(());
                });
                match rx.recv_timeout(std::time::Duration::from_secs(20)) {
                    Ok(()) => true,
                    Err(_) => {
                        println!("ORACLE call {} does not return (self-deadlock: it acquires the lock while its own thread holds it)", name);
                        println!("DEADLOCK {}", name);
                        use std::io::Write as _;
                        let _ = std::io::stdout().flush();
                        std::process::exit(3);
                    }
                }
            });
            let _ = finished;
            let ev = verif_take_events();
            writeln!(ops, "call {} {}", name, if ev.is_empty() { "-".to_string() } else { render(&ev) }).unwrap();
            match ev.iter().find(|e| e.depth_before != 0) {
                None => writeln!(imp, "flat").unwrap(),
                Some(_) => writeln!(imp, "notflat").unwrap(),
            }
            if let Some(e) = ev.iter().find(|e| e.depth_before != 0) {
                println!("ORACLE call {} acquires the lock ({}) at {} while already holding {} guard(s)", name, if e.write { "write" } else { "read" }, e.site, e.depth_before);
            }
        };
        record("version", &mut |c| { c.version(); });
        record("root_entry", &mut |c| { c.root_entry(); });
        record("entry", &mut |c| { let _ = c.entry("/m/k/s"); let _ = c.entry("/nope"); });
        record("exists", &mut |c| { c.exists("/m/k"); c.exists("/q/q"); });
        record("is_stream", &mut |c| { c.is_stream("/s1"); });
        record("is_storage", &mut |c| { c.is_storage("/m"); });
        record("read_root_storage", &mut |c| { c.read_root_storage().count(); });
        record("read_storage", &mut |c| { c.read_storage("/m").unwrap().count(); });
        record("walk", &mut |c| { c.walk().count(); });
        record("walk_storage", &mut |c| { c.walk_storage("/m").unwrap().count(); });
        record("walk_partial", &mut |c| { let mut it = c.walk(); it.next(); it.next(); it.next(); });
        // an iterator that is alive between two `next()` calls, with other calls made in between: lookups, a nested
        // iterator, and the handle operations of the same thread (a guard kept across `next()` calls shows up as an
        // acquisition at depth > 0, or as a call that never returns)
        record("walk_interleaved_lookups", &mut |c| { let mut it = c.walk(); it.next(); c.is_stream("/s1"); it.next(); c.exists("/m/k"); let _ = c.entry("/m"); it.next(); });
        record("read_storage_interleaved_lookups", &mut |c| { let mut it = c.read_storage("/m").unwrap(); it.next(); c.is_storage("/m"); let _ = c.root_entry(); it.next(); });
        record("nested_iterators", &mut |c| { let mut n = 0; for e in c.walk() { if e.is_storage() { n += c.read_storage(e.path()).unwrap().count(); } } let _ = n; });
        record("walk_storage_inside_read_root", &mut |c| { let mut it = c.read_root_storage(); it.next(); c.walk_storage("/m").unwrap().count(); it.next(); });
        record("iterator_alive_stream_write_flush", &mut |c| { let mut s = c.open_stream("/s2").unwrap(); let c = &*c; let mut it = c.walk(); it.next(); s.write_all(&pattern(700, 2)).unwrap(); s.flush().unwrap(); it.next(); s.set_len(10).unwrap(); it.next(); });
        record("iterator_alive_stream_read", &mut |c| { let mut s = c.open_stream("/m/k/big").unwrap(); let c = &*c; let mut it = c.read_root_storage(); it.next(); let mut b = [0u8; 300]; let _ = s.read(&mut b).unwrap(); it.next(); });
        record("open_stream", &mut |c| { let _ = c.open_stream("/s1"); });
        record("stream_read", &mut |c| { let mut s = c.open_stream("/s1").unwrap(); let mut v = Vec::new(); s.read_to_end(&mut v).unwrap(); });
        record("stream_fill_buf", &mut |c| { let mut s = c.open_stream("/m/k/big").unwrap(); let n = s.fill_buf().unwrap().len(); s.consume(n); s.fill_buf().unwrap(); });
        record("stream_seek", &mut |c| { let mut s = c.open_stream("/s1").unwrap(); s.seek(SeekFrom::End(-10)).unwrap(); s.seek(SeekFrom::Start(4000)).unwrap(); });
        record("stream_write_flush", &mut |c| { let mut s = c.open_stream("/s2").unwrap(); s.write_all(&pattern(3000, 9)).unwrap(); s.flush().unwrap(); });
        record("stream_write_drop", &mut |c| { let mut s = c.open_stream("/s2").unwrap(); s.seek(SeekFrom::End(0)).unwrap(); s.write_all(&pattern(3000, 9)).unwrap(); });
        record("stream_write_then_read", &mut |c| { let mut s = c.open_stream("/m/k/big").unwrap(); s.write_all(&pattern(10, 3)).unwrap(); let mut b = [0u8; 100]; let _ = s.read(&mut b).unwrap(); s.write_all(&pattern(5000, 4)).unwrap(); let _ = s.read(&mut b).unwrap(); });
        record("stream_read_write_fill", &mut |c| { let mut s = c.open_stream("/m/k/big").unwrap(); let mut b = [0u8; 64]; s.read_exact(&mut b).unwrap(); s.write_all(&pattern(70, 5)).unwrap(); let n = s.fill_buf().unwrap().len(); s.consume(n.min(3)); let _ = s.len(); let _ = s.stream_position(); });
        record("stream_write_seek_read", &mut |c| { let mut s = c.open_stream("/s1").unwrap(); s.write_all(&pattern(300, 6)).unwrap(); s.seek(SeekFrom::Current(-100)).unwrap(); let mut b = [0u8; 50]; let _ = s.read(&mut b).unwrap(); s.seek(SeekFrom::Start(0)).unwrap(); let _ = s.read(&mut b).unwrap(); });
        record("stream_write_set_len_read", &mut |c| { let mut s = c.open_stream("/s1").unwrap(); s.write_all(&pattern(30, 7)).unwrap(); s.set_len(5000).unwrap(); let mut b = [0u8; 50]; let _ = s.read(&mut b).unwrap(); });
        // argument boundaries combined with buffer state: set_len to exactly the handle's length while the appended
        // bytes are still only in the buffer (a branch for "nothing to do" that syncs the directory), to 0, to the
        // position; relative seeks by 0 and to the end with a dirty buffer
        record("stream_append_set_len_same_len", &mut |c| { let mut s = c.open_stream("/s2").unwrap(); s.seek(SeekFrom::End(0)).unwrap(); s.write_all(&pattern(100, 8)).unwrap(); let n = s.len(); s.set_len(n).unwrap(); s.set_len(n).unwrap(); });
        record("stream_overwrite_set_len_same_len", &mut |c| { let mut s = c.open_stream("/s1").unwrap(); s.write_all(&pattern(50, 8)).unwrap(); let n = s.len(); s.set_len(n).unwrap(); });
        record("stream_dirty_set_len_to_position_and_zero", &mut |c| { let mut s = c.open_stream("/m/k/big").unwrap(); s.seek(SeekFrom::Start(4000)).unwrap(); s.write_all(&pattern(300, 8)).unwrap(); let p = s.stream_position().unwrap(); s.set_len(p).unwrap(); s.write_all(&pattern(10, 9)).unwrap(); s.set_len(0).unwrap(); });
        record("stream_dirty_seeks", &mut |c| { let mut s = c.open_stream("/s1").unwrap(); s.write_all(&pattern(20, 8)).unwrap(); s.seek(SeekFrom::Current(0)).unwrap(); s.seek(SeekFrom::End(0)).unwrap(); s.write_all(&pattern(20, 9)).unwrap(); s.seek(SeekFrom::End(0)).unwrap(); s.seek(SeekFrom::Start(0)).unwrap(); });
        record("stream_set_len", &mut |c| { let mut s = c.open_stream("/s1").unwrap(); s.set_len(100).unwrap(); s.set_len(6000).unwrap(); });
        record("create_stream", &mut |c| { c.create_stream("/new1").unwrap(); c.create_new_stream("/new2").unwrap(); c.create_stream("/new1").unwrap(); });
        record("create_storage", &mut |c| { c.create_storage("/ns").unwrap(); c.create_storage_all("/ns/a/b").unwrap(); });
        record("setters", &mut |c| { c.set_state_bits("/m", 7).unwrap(); c.set_storage_clsid("/m", uuid::Uuid::from_bytes([1; 16])).unwrap(); c.touch("/m").unwrap(); });
        record("remove_stream", &mut |c| { c.remove_stream("/new2").unwrap(); });
        record("remove_storage", &mut |c| { c.remove_storage("/ns/a/b").unwrap(); });
        record("remove_storage_all", &mut |c| { c.remove_storage_all("/m").unwrap(); });
        record("flush", &mut |c| { c.flush().unwrap(); });
    }
    // the handle operations once more with an I/O error inside them: an error path that takes the lock again
    // (to re-read something, to roll back) while the call still holds its guard is the same nesting
    faulty_traces(&mut ops, &mut imp);
    std::fs::write(ops_path, ops).unwrap();
    std::fs::write(impl_path, imp).unwrap();
}

/// Handle operations (and two structural calls) with one underlying write/seek/flush failing at position k, for
/// every k of the fault-free run (at most 60 per operation), each on a watched thread with the lock events recorded.
fn faulty_traces(ops: &mut String, imp: &mut String) {
    use crate::faults::{Ctl, FaultyFile};
    type Op = (&'static str, fn(&mut CompoundFile<FaultyFile>, &mut cfb::Stream<FaultyFile>));
    let list: Vec<Op> = vec![
        ("set_len_shrink", |_, s| { let _ = s.set_len(5000); }),
        ("set_len_grow", |_, s| { let _ = s.set_len(20000); }),
        ("set_len_to_mini", |_, s| { let _ = s.set_len(100); }),
        ("write_flush", |_, s| { let _ = s.write_all(&pattern(3000, 5)); let _ = s.flush(); }),
        ("seek_write_read", |_, s| { let _ = s.seek(SeekFrom::Start(100)); let _ = s.write_all(&pattern(5000, 6)); let mut b = [0u8; 64]; let _ = s.read(&mut b); }),
        ("create_and_remove", |c, _| { let _ = c.create_stream("/n1"); let _ = c.remove_stream("/other"); let _ = c.create_storage("/st"); }),
    ];
    for version in [Version::V3, Version::V4] {
        for (name, f) in list.iter() {
            let f = *f;
            // everything that touches the handle happens on the watched thread (a handle is not `Send`)
            let run_one = move |k: Option<u64>| -> u64 {
                let ctl = Ctl::new(false, true);
                ctl.count_writes.store(false, Ordering::SeqCst);
                let file = FaultyFile { inner: SharedFile::new(Vec::new()), ctl: ctl.clone(), seek_is_read: false };
                let mut comp = CompoundFile::create_with_version(version, file).unwrap();
                comp.create_stream("/other").unwrap().write_all(&pattern(700, 1)).unwrap();
                let mut st = comp.create_stream("/s").unwrap();
                st.write_all(&pattern(9000, 2)).unwrap();
                st.flush().unwrap();
                if let Some(k) = k {
                    ctl.fail_a.store(k, Ordering::SeqCst);
                }
                ctl.count_writes.store(true, Ordering::SeqCst);
                verif_start_recording();
                f(&mut comp, &mut st);
                ctl.count_writes.store(false, Ordering::SeqCst);
                ctl.calls.load(Ordering::SeqCst)
            };
            let watched = |k: Option<u64>, label: &str| -> u64 {
                let (tx, rx) = mpsc::channel::<u64>();
                std::thread::spawn(move || {
                    let n = run_one(k);
                    let _ = tx.send(n);
                });
                match rx.recv_timeout(std::time::Duration::from_secs(20)) {
                    Ok(n) => n,
                    Err(_) => {
                        println!("ORACLE call {} (an underlying write/seek/flush fails at its call {:?}) does not return (self-deadlock: its error path acquires the lock while its own thread holds it)", label, k);
                        println!("DEADLOCK {}", label);
                        use std::io::Write as _;
                        let _ = std::io::stdout().flush();
                        std::process::exit(3);
                    }
                }
            };
            let n_calls = watched(None, name);
            let _ = verif_take_events();
            for k in 0..n_calls.min(60) {
                let label = format!("faulty_{}_v{}_k{}", name, if version == Version::V3 { 3 } else { 4 }, k);
                watched(Some(k), &label);
                let ev = verif_take_events();
                writeln!(ops, "call {} {}", label, if ev.is_empty() { "-".to_string() } else { render(&ev) }).unwrap();
                match ev.iter().find(|e| e.depth_before != 0) {
                    None => writeln!(imp, "flat").unwrap(),
                    Some(e) => {
                        writeln!(imp, "notflat").unwrap();
                        println!("ORACLE call {} acquires the lock ({}) at {} while already holding {} guard(s)", label, if e.write { "write" } else { "read" }, e.site, e.depth_before);
                    }
                }
            }
        }
    }
}

/// Thread A makes every `&self` call (lookups, listings, both iterators); the gate parks A whenever it is about to acquire while already
/// holding a guard, lets the writer B start waiting for the lock, then releases A.
/// Prints `completed` or `deadlock`.
pub fn steer() {
    let mut comp = build(Version::V3);
    let mut stream = comp.open_stream("/s2").unwrap();
    let comp = Arc::new(comp);
    let (go_tx, go_rx) = mpsc::channel::<()>();
    let go_tx = std::sync::Mutex::new(Some(go_tx));
    let a_id = Arc::new(AtomicUsize::new(0));
    let b_requested = Arc::new(AtomicBool::new(false));
    let parked = Arc::new(AtomicBool::new(false));
    {
        let a_id = a_id.clone();
        let b_requested = b_requested.clone();
        let parked = parked.clone();
        verif_set_gate(Some(Box::new(move |e: &VerifLockEvent| {
            let me = thread_id();
            if me == a_id.load(Ordering::SeqCst) && e.depth_before > 0 && !parked.swap(true, Ordering::SeqCst) {
                // A is between two acquisitions: let the writer start waiting
                if let Some(tx) = go_tx.lock().unwrap().take() {
                    let _ = tx.send(());
                }
                let start = std::time::Instant::now();
                while !b_requested.load(Ordering::SeqCst) && start.elapsed() < Duration::from_secs(2) {
                    std::thread::sleep(Duration::from_millis(5));
                }
                std::thread::sleep(Duration::from_millis(200));
            } else if e.write {
                b_requested.store(true, Ordering::SeqCst);
            }
        })));
    }
    // watchdog: if both parties are not done in time, report the deadlock and leave
    let finished = Arc::new(AtomicBool::new(false));
    {
        let finished = finished.clone();
        std::thread::spawn(move || {
            std::thread::sleep(Duration::from_secs(8));
            if !finished.load(Ordering::SeqCst) {
                println!("deadlock");
                std::process::exit(0);
            }
        });
    }
    let c1 = comp.clone();
    let a_id2 = a_id.clone();
    let a_done = Arc::new(AtomicBool::new(false));
    let a_done2 = a_done.clone();
    let a = std::thread::spawn(move || {
        a_id2.store(thread_id(), Ordering::SeqCst);
        // every call that takes `&self`: the gate parks this thread at the first acquisition made
        // while a guard is already held, whichever call makes it
        let mut n = 0usize;
        let _ = c1.version();
        let _ = c1.root_entry();
        let _ = c1.entry("/m/k/s");
        let _ = c1.entry("/nope");
        n += c1.exists("/m/k") as usize + c1.exists("/q/q") as usize;
        n += c1.is_stream("/s1") as usize + c1.is_stream("/m") as usize + c1.is_stream("/nope") as usize;
        n += c1.is_storage("/m") as usize + c1.is_storage("/s1") as usize + c1.is_storage("/nope") as usize;
        n += c1.read_root_storage().count();
        n += c1.read_storage("/m").map(|it| it.count()).unwrap_or(0);
        n += c1.walk().count();
        n += c1.walk_storage("/m").map(|it| it.count()).unwrap_or(0);
        {
            let mut it = c1.walk();
            it.next();
            it.next();
        }
        {
            // other read-only calls while an iterator is alive between two `next()` calls
            let mut it = c1.walk();
            it.next();
            n += c1.is_stream("/s1") as usize;
            it.next();
            let mut inner = c1.read_storage("/m").unwrap();
            inner.next();
            n += c1.exists("/m/k") as usize;
            inner.next();
            it.next();
        }
        a_done2.store(true, Ordering::SeqCst);
        n
    });
    // B runs on the thread that owns the handle (a `Stream` is not `Send`): it waits until A is
    // parked (or gives up after 3 s when A never nests an acquisition)
    while go_rx.try_recv().is_err() && !a_done.load(Ordering::SeqCst) {
        std::thread::sleep(Duration::from_millis(2));
    }
    stream.write_all(&pattern(100, 5)).unwrap();
    stream.flush().unwrap();
    let _ = a.join();
    finished.store(true, Ordering::SeqCst);
    println!("completed");
    std::process::exit(0);
}

fn thread_id() -> usize {
    thread_local! { static ID: u8 = 0; }
    ID.with(|x| x as *const u8 as usize)
}

/// Unsteered: `readers` threads call read-only methods in a loop while one thread writes.
pub fn stress(readers: usize, millis: u64) {
    let mut comp = build(Version::V4);
    // siblings whose names are compared on the slow path (not ASCII, equal length in UTF-16 units, differing in
    // one character): every reader looks a different one up, and every answer is checked
    let probes: Vec<(String, u64)> = ["ø-data", "é-data", "ü-data", "ß-data", "Ω-data", "я-data", "ñ-data", "ç-data"]
        .iter().enumerate().map(|(i, n)| (format!("/m/p/{}", n), 10 + 7 * i as u64)).collect();
    for (p, len) in &probes {
        comp.create_stream(p).unwrap().write_all(&pattern(*len as usize, 5)).unwrap();
    }
    comp.flush().unwrap();
    let walk_count = comp.walk().count();
    let m_p_count = comp.read_storage("/m/p").unwrap().count();
    let mut stream = comp.open_stream("/s1").unwrap();
    let comp = Arc::new(comp);
    let stop = Arc::new(AtomicBool::new(false));
    let wrong: Arc<std::sync::Mutex<Vec<String>>> = Arc::new(std::sync::Mutex::new(Vec::new()));
    let (done_tx, done_rx) = mpsc::channel::<u64>();
    for r in 0..readers {
        let c = comp.clone();
        let stop = stop.clone();
        let tx = done_tx.clone();
        let probes = probes.clone();
        let wrong = wrong.clone();
        std::thread::spawn(move || {
            let mut n = 0u64;
            let mut say = |m: String| { let mut w = wrong.lock().unwrap(); if w.len() < 5 { w.push(m); } };
            while !stop.load(Ordering::SeqCst) {
                match (n + r as u64) % 8 {
                    0 => { let k = c.walk().count(); if k != walk_count { say(format!("walk() listed {} entries, the file has {}", k, walk_count)); } }
                    1 => { let k = c.read_storage("/m/p").map(|it| it.count()).unwrap_or(usize::MAX); if k != m_p_count { say(format!("read_storage(/m/p) listed {} entries, the storage has {}", k, m_p_count)); } }
                    2 => { if !c.exists("/m/k/s") { say("exists(/m/k/s) is false".into()); } }
                    3 => { if c.entry("/s1").map(|e| e.name().to_string()).ok() != Some("s1".to_string()) { say("entry(/s1) is not s1".into()); } }
                    4 => { c.root_entry(); }
                    _ => {
                        let (p, len) = &probes[((n / 8) as usize * 3 + r * 5) % probes.len()];
                        match c.entry(p) {
                            Ok(e) => if e.len() != *len || !p.ends_with(e.name()) || !c.is_stream(p) { say(format!("entry({}) answered name {} len {} (the stream has {} bytes)", p, e.name(), e.len(), len)); },
                            Err(e) => say(format!("entry({}) failed: {}", p, e)),
                        }
                    }
                }
                n += 1;
            }
            let _ = tx.send(n);
        });
    }
    // watchdog
    let finished_flag = Arc::new(AtomicBool::new(false));
    {
        let f = finished_flag.clone();
        std::thread::spawn(move || {
            std::thread::sleep(Duration::from_millis(millis + 6000));
            if !f.load(Ordering::SeqCst) {
                println!("deadlock 0");
                std::process::exit(0);
            }
        });
    }
    // the writer works on the thread that owns the handle
    let start = std::time::Instant::now();
    let mut wn = 0u64;
    while start.elapsed() < Duration::from_millis(millis) {
        let n = wn;
        stream.seek(SeekFrom::Start((n * 37) % 4000)).unwrap();
        stream.write_all(&pattern(300, n)).unwrap();
        stream.flush().unwrap();
        let mut b = [0u8; 64];
        let _ = stream.read(&mut b);
        if n % 7 == 0 {
            stream.set_len(5000 + (n % 3) * 100).unwrap();
        }
        wn += 1;
    }
    let _ = done_tx.send(wn);
    stop.store(true, Ordering::SeqCst);
    let mut finished = 0;
    let mut total = 0u64;
    while finished < readers + 1 {
        match done_rx.recv_timeout(Duration::from_secs(5)) {
            Ok(n) => { finished += 1; total += n; }
            Err(_) => break,
        }
    }
    finished_flag.store(true, Ordering::SeqCst);
    for w in wrong.lock().unwrap().iter() {
        println!("wrong {}", w);
    }
    println!("{} {}", if finished == readers + 1 { "completed" } else { "deadlock" }, total);
    std::process::exit(0);
}

/// (4) atomic views.  Between two critical sections of a handle operation the lock is free: that is exactly
/// when another thread's read-only call can run.  The gate of hook H1 is called before every acquisition; when
/// the handle's thread holds no guard, the gate itself makes a read-only call (`entry(path).len()`) — so every
/// state a concurrent reader could see during the operation is observed, deterministically, on one thread.
/// Each observed length must be the stream's length before the operation, the length a whole flush of the
/// handle's pending data gives, or the length after the operation: an operation that publishes its effect
/// piecewise (several critical sections, each a part of one write-back) shows a length the stream never had
/// before or after a whole stream operation.
pub fn atomic() {
    use std::cell::Cell;
    use std::sync::Mutex;
    thread_local! { static IN_GATE: Cell<bool> = const { Cell::new(false) }; }
    let mut evaluations = 0u64;
    let mut total_views = 0u64;
    for version in [Version::V3, Version::V4] {
        let comp: &'static mut CompoundFile<SharedFile> = Box::leak(Box::new(build(version)));
        let mut st = comp.create_stream("/obs").unwrap();
        let comp: &'static CompoundFile<SharedFile> = comp;
        let seen: Arc<Mutex<Vec<u64>>> = Arc::new(Mutex::new(Vec::new()));
        let observing = Arc::new(AtomicBool::new(false));
        let (seen2, obs2) = (seen.clone(), observing.clone());
        verif_set_gate(Some(Box::new(move |e: &VerifLockEvent| {
            if !obs2.load(Ordering::SeqCst) || e.depth_before != 0 {
                return;
            }
            if IN_GATE.with(|g| g.replace(true)) {
                return;
            }
            let l = comp.entry("/obs").map(|e| e.len()).unwrap_or(u64::MAX);
            seen2.lock().unwrap().push(l);
            IN_GATE.with(|g| g.set(false));
        })));
        let kib = 1024usize;
        let big = pattern(2200 * kib, 9);
        let mut ops: Vec<(String, Box<dyn FnMut(&mut cfb::Stream<SharedFile>)>)> = Vec::new();
        let b1 = big[..300 * kib].to_vec();
        ops.push(("write 300 KiB".into(), Box::new(move |s| { let _ = s.write(&b1); })));
        ops.push(("flush".into(), Box::new(|s| { let _ = s.flush(); })));
        ops.push(("seek end".into(), Box::new(|s| { let _ = s.seek(SeekFrom::End(0)); })));
        let b2 = big[..768 * kib].to_vec();
        ops.push(("write 768 KiB".into(), Box::new(move |s| { let _ = s.write(&b2); })));
        ops.push(("set_len 100000".into(), Box::new(|s| { let _ = s.set_len(100_000); })));
        ops.push(("seek 0".into(), Box::new(|s| { let _ = s.seek(SeekFrom::Start(0)); })));
        ops.push(("read 50 KiB".into(), Box::new(move |s| { let mut b = vec![0u8; 50 * 1024]; let _ = s.read(&mut b); })));
        ops.push(("write 10".into(), Box::new(|s| { let _ = s.write(&[7u8; 10]); })));
        ops.push(("fill_buf".into(), Box::new(|s| { let _ = s.fill_buf().map(|b| b.len()); })));
        ops.push(("seek end".into(), Box::new(|s| { let _ = s.seek(SeekFrom::End(0)); })));
        for i in 0..4 {
            // single `write` calls past the buffer's maximum: each call is one operation
            let b = big[..900 * kib].to_vec();
            ops.push((format!("write 900 KiB (#{})", i), Box::new(move |s| { let _ = s.write(&b); })));
        }
        ops.push(("flush".into(), Box::new(|s| { let _ = s.flush(); })));
        ops.push(("set_len 0".into(), Box::new(|s| { let _ = s.set_len(0); })));
        let b3 = big[..5000].to_vec();
        ops.push(("write 5000".into(), Box::new(move |s| { let _ = s.write(&b3); })));
        ops.push(("set_len 70000".into(), Box::new(|s| { let _ = s.set_len(70_000); })));
        ops.push(("flush".into(), Box::new(|s| { let _ = s.flush(); })));
        // a non-empty stream in the mini stream whose buffer is written back across the 4096-byte cutoff in one go
        // (the migration to a regular chain and the write are one critical section): by flush, by set_len, by a
        // window switch of a read, by a seek out of the window, by drop-like flush after a small-buffer overflow
        ops.push(("set_len 1000".into(), Box::new(|s| { let _ = s.set_len(1000); })));
        ops.push(("seek 0".into(), Box::new(|s| { let _ = s.seek(SeekFrom::Start(0)); })));
        let b4 = big[..5000].to_vec();
        ops.push(("write 5000 over a 1000-byte mini stream".into(), Box::new(move |s| { let _ = s.write(&b4); })));
        ops.push(("flush across the cutoff".into(), Box::new(|s| { let _ = s.flush(); })));
        ops.push(("set_len 100".into(), Box::new(|s| { let _ = s.set_len(100); })));
        ops.push(("seek 50".into(), Box::new(|s| { let _ = s.seek(SeekFrom::Start(50)); })));
        let b5 = big[..6000].to_vec();
        ops.push(("write 6000 at 50 of a 100-byte mini stream".into(), Box::new(move |s| { let _ = s.write(&b5); })));
        ops.push(("set_len 7000 (writes back across the cutoff)".into(), Box::new(|s| { let _ = s.set_len(7000); })));
        ops.push(("set_len 4095".into(), Box::new(|s| { let _ = s.set_len(4095); })));
        ops.push(("seek 4000".into(), Box::new(|s| { let _ = s.seek(SeekFrom::Start(4000)); })));
        let b6 = big[..200].to_vec();
        ops.push(("write 200 at 4000 of a 4095-byte mini stream".into(), Box::new(move |s| { let _ = s.write(&b6); })));
        ops.push(("seek 0 (writes back across the cutoff)".into(), Box::new(|s| { let _ = s.seek(SeekFrom::Start(0)); })));
        ops.push(("set_len 4095".into(), Box::new(|s| { let _ = s.set_len(4095); })));
        ops.push(("seek end".into(), Box::new(|s| { let _ = s.seek(SeekFrom::End(0)); })));
        ops.push(("write 1 at the end of a 4095-byte mini stream".into(), Box::new(|s| { let _ = s.write(&[9u8]); })));
        ops.push(("flush across the cutoff".into(), Box::new(|s| { let _ = s.flush(); })));
        for (name, f) in ops.iter_mut() {
            let l0 = comp.entry("/obs").map(|e| e.len()).unwrap_or(u64::MAX);
            let h0 = st.len();
            seen.lock().unwrap().clear();
            observing.store(true, Ordering::SeqCst);
            f(&mut st);
            observing.store(false, Ordering::SeqCst);
            let l1 = comp.entry("/obs").map(|e| e.len()).unwrap_or(u64::MAX);
            evaluations += 1;
            let views = seen.lock().unwrap().clone();
            total_views += views.len() as u64;
            if let Some(v) = views.iter().find(|v| **v != l0 && **v != h0 && **v != l1) {
                println!("ORACLE atomic-view: during `{}` on a handle (V{}) a read-only call between two of its critical sections sees length {} — the stream had length {} before the operation, {} is what a whole flush of the handle gives, {} is its length afterwards (views: {:?})",
                    name, if version == Version::V3 { 3 } else { 4 }, v, l0, h0, l1, views.iter().take(12).collect::<Vec<_>>());
            }
        }
        verif_set_gate(None);
    }
    println!("STAT evaluations {}", evaluations);
    println!("STAT views {}", total_views);
}
