mod api;
mod deviate;
mod faults;
mod apigen;
mod phys;
mod damage;
mod layout;
mod backend;
mod handle;
mod twoh;
mod locks;
mod mutate;
mod names;
mod raw;
mod sparse;
mod timeconv;
mod util;

use util::*;

fn main() {
    let args: Vec<String> = std::env::args().collect();
    silence_panics();
    let cmd = args.get(1).map(|s| s.as_str()).unwrap_or("");
    match cmd {
        "twohandles" => {
            for v in twoh::campaign(arg_u64(&args, "--seed", 1), arg_u64(&args, "--count", 200)) {
                println!("ORACLE {}", v);
            }
        }
        "handle" => {
            let ops = arg(&args, "--ops").unwrap();
            let imp = arg(&args, "--impl").unwrap();
            let violations = if let Some(r) = arg(&args, "--replay") {
                std::fs::copy(r, ops).ok();
                handle::replay(ops, imp)
            } else {
                let seed = arg_u64(&args, "--seed", 1);
                let count = arg_u64(&args, "--count", 100);
                let max_ops = arg_u64(&args, "--max-ops", 60);
                let (stats, v) = handle::campaign(seed, count, max_ops, ops, imp);
                println!("STAT scripts {}", stats.scripts);
                println!("STAT ops {}", stats.ops);
                println!("STAT distinct {}", stats.distinct.len());
                for (k, n) in &stats.hist {
                    println!("HIST {} {}", k, n);
                }
                v
            };
            for v in &violations {
                println!("ORACLE {}", v);
            }
        }
        "time" => {
            let ops = arg(&args, "--ops").unwrap();
            let imp = arg(&args, "--impl").unwrap();
            if let Some(r) = arg(&args, "--replay") {
                if r != ops {
                    std::fs::copy(r, ops).ok();
                }
                timeconv::replay(ops, imp);
            } else {
                let (hist, v) = timeconv::campaign(arg_u64(&args, "--seed", 1), arg_u64(&args, "--count", 1000), ops, imp);
                for (k, n) in &hist {
                    println!("HIST {} {}", k, n);
                }
                for x in &v {
                    println!("ORACLE {}", x);
                }
            }
        }
        "api" => {
            let ops = arg(&args, "--ops").unwrap();
            let imp = arg(&args, "--impl").unwrap();
            let violations = if let Some(r) = arg(&args, "--replay") {
                if r != ops {
                    std::fs::copy(r, ops).ok();
                }
                apigen::replay(ops, imp)
            } else {
                let cfg = apigen::GenCfg {
                    names_valid_only: !args.iter().any(|a| a == "--invalid-names"),
                    reopen_pct: arg_u64(&args, "--reopen-pct", 5),
                    max_depth: arg_u64(&args, "--max-depth", 3) as usize,
                    handle_ops: false,
                    meta_ops: !args.iter().any(|a| a == "--no-meta"),
                    refusal_bias: args.iter().any(|a| a == "--refusals"),
                    meta_heavy: args.iter().any(|a| a == "--meta-heavy"),
                };
                let o = if args.iter().any(|a| a == "--handles") {
                    apigen::handle_campaign(arg_u64(&args, "--seed", 1), arg_u64(&args, "--count", 100), arg_u64(&args, "--max-ops", 60), ops, imp)
                } else if let Some(n) = arg(&args, "--perms") {
                    apigen::perm_campaign(arg_u64(&args, "--seed", 1), n.parse().unwrap(), arg_u64(&args, "--sample", 0), ops, imp)
                } else {
                    apigen::campaign(arg_u64(&args, "--seed", 1), arg_u64(&args, "--count", 100), arg_u64(&args, "--max-ops", 40), &cfg, ops, imp, arg(&args, "--snapdir"))
                };
                println!("STAT histories {}", o.histories);
                println!("STAT ops {}", o.ops);
                println!("STAT distinct {}", o.distinct.len());
                for (k, n) in &o.hist {
                    println!("HIST {} {}", k, n);
                }
                o.violations
            };
            for v in &violations {
                println!("ORACLE {}", v);
            }
        }
        "phys" => {
            let ops = arg(&args, "--ops").unwrap();
            let imp = arg(&args, "--impl").unwrap();
            let violations = if let Some(r) = arg(&args, "--replay") {
                if r != ops {
                    std::fs::copy(r, ops).ok();
                }
                phys::replay(ops, imp)
            } else if args.iter().any(|a| a == "--huge-cycle") {
                phys::huge_cycle()
            } else if args.iter().any(|a| a == "--huge-handles") {
                phys::huge_handles(ops)
            } else if let Some(dir) = arg(&args, "--huge") {
                phys::huge_v(dir, ops, imp, args.iter().any(|a| a == "--v4"))
            } else {
                let cfg = phys::PhysCfg {
                    many_entries: args.iter().any(|a| a == "--many-entries"),
                    mini_churn: args.iter().any(|a| a == "--mini-churn"),
                    setlen_heavy: args.iter().any(|a| a == "--setlen-heavy"),
                    cycles: !args.iter().any(|a| a == "--no-cycles"),
                    handles: !args.iter().any(|a| a == "--no-handles"),
                    reopen_pct: arg_u64(&args, "--reopen-pct", 4),
                    big: args.iter().any(|a| a == "--big"),
                };
                let o = phys::campaign(arg_u64(&args, "--seed", 1), arg_u64(&args, "--count", 100), arg_u64(&args, "--max-ops", 40), &cfg, ops, imp, arg(&args, "--snapdir"));
                println!("STAT histories {}", o.histories);
                println!("STAT ops {}", o.ops);
                println!("STAT distinct {}", o.distinct.len());
                for (k, n) in &o.hist {
                    println!("HIST {} {}", k, n);
                }
                o.violations
            };
            for v in &violations {
                println!("ORACLE {}", v);
            }
        }
        "damage" => {
            if let Some(img) = arg(&args, "--replay") {
                damage::replay(img, arg(&args, "--history").unwrap());
            } else if args.iter().any(|a| a == "--dirty-slots") {
                damage::dirty_slots(arg_u64(&args, "--seed", 1), arg(&args, "--bases").unwrap(), arg_u64(&args, "--count", 200));
            } else if args.iter().any(|a| a == "--stale") {
                damage::stale(arg_u64(&args, "--seed", 1), arg(&args, "--bases").unwrap(), arg_u64(&args, "--count", 300), arg_u64(&args, "--max-ops", 12),
                    arg(&args, "--outdir").unwrap(), arg(&args, "--list").unwrap());
            } else if args.iter().any(|a| a == "--lockstep") {
                damage::lockstep(arg_u64(&args, "--seed", 1), arg(&args, "--bases").unwrap(), arg_u64(&args, "--count", 200), arg_u64(&args, "--max-ops", 8),
                    arg(&args, "--outdir").unwrap(), arg(&args, "--ops").unwrap(), arg(&args, "--impl").unwrap());
            } else if args.iter().any(|a| a == "--refusals") {
                damage::refusal_campaign(arg_u64(&args, "--seed", 1), arg(&args, "--bases").unwrap(), arg_u64(&args, "--per-image", 12));
            } else {
                damage::campaign(arg_u64(&args, "--seed", 1), arg(&args, "--bases").unwrap(), arg_u64(&args, "--count", 500), arg_u64(&args, "--max-ops", 10), arg(&args, "--keepdir").unwrap());
            }
        }
        "layout" => {
            let o = phys::layouts(arg_u64(&args, "--seed", 1), arg_u64(&args, "--count", 50), arg(&args, "--outdir").unwrap(), args.iter().any(|a| a == "--big"), args.iter().any(|a| a == "--full-difat"), arg(&args, "--ops"), arg(&args, "--impl"));
            println!("STAT histories {}", o.histories);
            println!("STAT ops {}", o.ops);
            println!("STAT distinct {}", o.distinct.len());
            for (k, n) in &o.hist {
                println!("HIST {} {}", k, n);
            }
            for v in &o.violations {
                println!("ORACLE {}", v);
            }
        }
        "raw" => raw::run(arg(&args, "--list").unwrap(), arg(&args, "--ops").unwrap(), arg(&args, "--impl").unwrap(), arg_u64(&args, "--start", 0) as usize),
        "mutate" => mutate::run(arg_u64(&args, "--seed", 1), arg(&args, "--bases").unwrap(), arg(&args, "--outdir").unwrap(), arg_u64(&args, "--count", 100), arg(&args, "--list").unwrap()),
        "deviate" => deviate::run(arg_u64(&args, "--seed", 1), arg(&args, "--bases").unwrap(), arg(&args, "--outdir").unwrap(), arg_u64(&args, "--combos", 3), arg(&args, "--list").unwrap()),
        "locks" => {
            if args.iter().any(|a| a == "--atomic") {
                locks::atomic();
            } else if args.iter().any(|a| a == "--steer") {
                locks::steer();
            } else if args.iter().any(|a| a == "--stress") {
                locks::stress(arg_u64(&args, "--readers", 3) as usize, arg_u64(&args, "--millis", 1000));
            } else {
                locks::traces(arg(&args, "--ops").unwrap(), arg(&args, "--impl").unwrap());
            }
        }
        "faults" => {
            if args.iter().any(|a| a == "--meta") {
                faults::meta_campaign();
            } else if args.iter().any(|a| a == "--write") {
                faults::write_campaign(arg_u64(&args, "--seed", 1), arg_u64(&args, "--max-runs", 600), arg(&args, "--ops").unwrap(), arg(&args, "--impl").unwrap());
            } else if args.iter().any(|a| a == "--read") {
                faults::read_campaign(arg_u64(&args, "--seed", 1), arg_u64(&args, "--pairs", 300), arg(&args, "--ops").unwrap(), arg(&args, "--impl").unwrap());
            }
        }
        "variants" => {
            let (n, v) = apigen::variants(arg(&args, "--ops").unwrap(), arg(&args, "--scratch").unwrap());
            println!("STAT evaluations {}", n);
            for x in &v {
                println!("ORACLE {}", x);
            }
        }
        "upper-dump" => names::upper_dump(arg(&args, "--out").unwrap()),
        "sparse" => sparse::run(),
        "names" => {
            let ops = arg(&args, "--ops").unwrap();
            let imp = arg(&args, "--impl").unwrap();
            if let Some(r) = arg(&args, "--replay") {
                if r != ops {
                    std::fs::copy(r, ops).ok();
                }
                names::replay(ops, imp);
            } else {
                let (hist, v) = names::campaign(arg_u64(&args, "--seed", 1), arg_u64(&args, "--count", 1000), ops, imp);
                for (k, n) in &hist {
                    println!("HIST {} {}", k, n);
                }
                for x in &v {
                    println!("ORACLE {}", x);
                }
            }
        }
        _ => {
            eprintln!("usage: harness <handle|...> [options]");
            std::process::exit(2);
        }
    }
}
