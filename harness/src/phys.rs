//! Allocation-level campaign (C02, C03, C08, C15): API histories whose sizes sit on the 64-byte,
//! 4096-byte and sector boundaries, with net-zero cycles, open handles, reopens and snapshots.
//!
//! impl file line: `<result> | P <image len> <fnv64 of the image> | C <num_sectors> <fat.len> <free_sectors>
//!                  <minifat.len> <free_mini_sectors> <dir_entries.len> <minifat_start> <root start> <root len>`
//! Oracles on the implementation alone (no Lean model involved):
//!   - results against the abstract tree model with stream contents (C08: grown bytes are zero);
//!   - C15: `cycle` blocks — the file length after repetition j >= 2 equals the length after repetition 1;
//!   - C02: at sampled quiescent boundaries the bytes alone reopen (both modes) to the live logical dump,
//!     and the history continues on the reopened file from time to time (`reopen`).
use crate::api::{Real, RefModel};
use crate::apigen::{short, Outcome};
use crate::names::enc;
use crate::util::*;
use cfb::CompoundFile;
use std::collections::BTreeMap;
use std::fmt::Write as _;

pub const SIZES: &[usize] = &[0, 1, 5, 63, 64, 65, 100, 127, 128, 129, 500, 511, 512, 513, 1000, 2048, 4031, 4032, 4033, 4095, 4096, 4097, 4160, 5000, 8191, 8192, 8193, 12000, 20000];

pub fn fnv(bytes: &[u8]) -> u64 {
    let mut h: u64 = 14695981039346656037;
    for b in bytes {
        h = (h ^ *b as u64).wrapping_mul(1099511628211);
    }
    h
}

fn list(v: &[u32]) -> String {
    if v.is_empty() { "-".into() } else { v.iter().map(|x| x.to_string()).collect::<Vec<_>>().join(",") }
}

pub fn tail(real: &Real) -> String {
    let img = real.image();
    let Some(comp) = real.comp.as_ref() else { return "-".into() };
    // a library panic under the write lock poisons it: the dump then panics too
    let Ok(d) = catch(|| comp.verif_dump()) else { return "poisoned".into() };
    let root = &d.dir_entries[0];
    format!(
        "P {} {} | C {} {} {} {} {} {} {} {} {}",
        img.len(), fnv(&img), d.num_sectors, d.fat.len(), list(&d.free_sectors), d.minifat.len(), list(&d.free_mini_sectors),
        d.dir_entries.len(), d.minifat_start_sector, root.start_sector, root.stream_len
    )
}

/// C02 oracle: the bytes alone, opened in both modes, give the live dump.
pub fn reopen_violation(real: &mut Real) -> Option<String> {
    let live = real.dump();
    let bytes = real.image();
    for strict in [false, true] {
        let r = if strict { CompoundFile::open_strict(std::io::Cursor::new(bytes.clone())) } else { CompoundFile::open(std::io::Cursor::new(bytes.clone())) };
        match r {
            Err(e) => return Some(format!("the bytes do not reopen ({}): {}", if strict { "strict" } else { "permissive" }, e)),
            Ok(c) => {
                let mut other = Real::new();
                other.comp = None;
                let d = crate::api::dump_of(c);
                if d != live {
                    return Some(format!("the bytes reopen ({}) to a different state: live {} vs reopened {}", if strict { "strict" } else { "permissive" }, short(&live), short(&d)));
                }
            }
        }
    }
    None
}

/// sectors held by the mini container: MiniFAT chain + mini stream chain (they are never released)
fn container_sectors(real: &Real) -> usize {
    let Some(comp) = real.comp.as_ref() else { return 0 };
    let d = comp.verif_dump();
    let chain = |mut id: u32| {
        let mut n = 0usize;
        while id != 0xFFFFFFFE && (id as usize) < d.fat.len() && n <= d.fat.len() {
            n += 1;
            id = d.fat[id as usize];
        }
        n
    };
    chain(d.minifat_start_sector) + chain(d.dir_entries[0].start_sector)
}

/// C15 judge for `cyc begin` / `cyc rep` / `cyc end` blocks.
#[derive(Default)]
pub struct CycleJudge {
    lens: Vec<usize>,
    container: Vec<usize>,
    body: Vec<String>,
    sector_len: usize,
}

impl CycleJudge {
    pub fn on(&mut self, line: &str, real: &Real) -> Option<String> {
        match line {
            "cyc begin" => {
                *self = CycleJudge::default();
                self.container.push(container_sectors(real));
                self.sector_len = if real.image().len() >= 30 && real.image()[30] == 12 { 4096 } else { 512 };
                None
            }
            "cyc rep" => {
                self.lens.push(real.image().len());
                self.container.push(container_sectors(real));
                None
            }
            "cyc end" => {
                let l = &self.lens;
                if l.len() < 2 {
                    return None;
                }
                let body = self.body.iter().map(|x| short(x)).collect::<Vec<_>>().join("; ");
                if l[2..].iter().any(|x| *x != l[1]) {
                    return Some(format!("C15 cycle [{}] repeated {} times keeps growing: file length after each repetition {:?}", body, l.len(), l));
                }
                if l[1] != l[0] {
                    let grown = (l[1] as i64 - l[0] as i64) / self.sector_len.max(1) as i64;
                    let retained = if self.container.len() >= 2 { self.container[1] as i64 - self.container[0] as i64 } else { 0 };
                    if grown > 0 && grown <= retained {
                        return Some(format!("C15 second-repetition growth: cycle [{}]: file length after each repetition {:?}; the first repetition left {} more sector(s) in the MiniFAT / mini stream chains, the second grew the file by {}", body, l, retained, grown));
                    }
                    return Some(format!("C15 cycle [{}] repeated {} times: the second repetition changed the file length: {:?} (mini container retained {} sector(s))", body, l.len(), l, retained));
                }
                None
            }
            _ => {
                if self.lens.is_empty() {
                    self.body.push(line.to_string());
                }
                None
            }
        }
    }
}

pub struct PhysCfg {
    /// 35-70 directory entries (more than one directory sector also in version 4), with removals and
    /// re-creations so that freed slots in every directory sector are reused
    pub many_entries: bool,
    /// fill the mini stream over several MiniFAT sectors, drain it from the end (so that the in-memory
    /// MiniFAT is trimmed below a sector boundary), fill again
    pub mini_churn: bool,
    /// C08: mostly set_len (shrink to unaligned, grow to aligned and unaligned lengths) with full read-backs
    pub setlen_heavy: bool,
    pub cycles: bool,
    pub handles: bool,
    pub reopen_pct: u64,
    pub big: bool,
}

fn gen_cycle(r: &mut Rng, names: &[&str], salt: u64) -> Vec<String> {
    let p = format!("/{}", r.pick(names));
    let n1 = *r.pick(SIZES);
    let n2 = *r.pick(SIZES);
    match r.below(10) {
        // (8, 9: more entries per repetition than one directory sector holds — 4 in version 3, 32 in version 4 —
        // so released directory slots of *earlier* directory sectors must be found again)
        8 => {
            let k = if r.chance(1, 3) { 33 + r.below(8) as usize } else { 5 + r.below(8) as usize };
            let mut v = vec![format!("mkdir {}", enc(&p))];
            for i in 0..k {
                v.push(format!("put {} {}", enc(&format!("{}/c{}", p, i)), hex(&pattern(if i % 3 == 0 { 0 } else { 20 }, salt + i as u64))));
            }
            v.push(format!("rmall {}", enc(&p)));
            v
        }
        9 => {
            let k = if r.chance(1, 3) { 33 + r.below(8) as usize } else { 5 + r.below(8) as usize };
            let mut v = Vec::new();
            for i in 0..k {
                v.push(format!("put {} {}", enc(&format!("{}q{}", p, i)), hex(&pattern(if i % 2 == 0 { 0 } else { 70 }, salt + i as u64))));
            }
            for i in 0..k {
                v.push(format!("rm {}", enc(&format!("{}q{}", p, i))));
            }
            v
        }
        // (6, 7: the cycle includes a reopen — the state `open` rebuilds must reuse the same space)
        6 => vec![format!("put {} {}", enc(&p), hex(&pattern(n1, salt))), format!("rm {}", enc(&p)), format!("reopen {}", if r.chance(1, 2) { "strict" } else { "permissive" })],
        7 => vec![format!("put {} {}", enc(&p), hex(&pattern(n1, salt))), "reopen permissive".to_string(), format!("put {} {}", enc(&p), hex(&pattern(n2, salt + 1))), format!("rm {}", enc(&p))],
        0 => vec![format!("put {} {}", enc(&p), hex(&pattern(n1, salt))), format!("rm {}", enc(&p))],
        1 => vec![format!("put {} {}", enc(&p), hex(&pattern(n1, salt))), format!("put {} {}", enc(&p), hex(&pattern(n2, salt + 1))), format!("rm {}", enc(&p))],
        2 => vec![format!("hcreate 7 {}", enc(&p)), format!("hwrite 7 {}", hex(&pattern(n1, salt))), format!("hsetlen 7 {}", n2), "hclose 7".into(), format!("rm {}", enc(&p))],
        3 => vec![format!("mkdir {}", enc(&p)), format!("put {} {}", enc(&format!("{}/x", p)), hex(&pattern(n1, salt))), format!("put {} {}", enc(&format!("{}/y", p)), hex(&pattern(n2, salt))), format!("rmall {}", enc(&p))],
        4 => vec![format!("put {} {}", enc(&p), hex(&pattern(n1, salt))), format!("hopen 7 {}", enc(&p)), format!("hwrite 7 {}", hex(&pattern(n2, salt + 2))), "hclose 7".into(), format!("rm {}", enc(&p))],
        _ => vec![format!("put {} {}", enc(&p), hex(&pattern(n1, salt))), format!("hopen 7 {}", enc(&p)), format!("hsetlen 7 {}", n2), format!("hsetlen 7 {}", n1), "hclose 7".into(), format!("rm {}", enc(&p))],
    }
}

pub fn campaign(seed: u64, count: u64, max_ops: u64, cfg: &PhysCfg, ops_path: &str, impl_path: &str, snapdir: Option<&str>) -> Outcome {
    let mut rng = Rng::new(seed);
    let mut ops_out = String::new();
    let mut impl_out = String::new();
    let mut out = Outcome { ops: 0, histories: 0, hist: Default::default(), distinct: Default::default(), violations: vec![] };
    let plain = ["a", "b", "c", "d", "e", "f", "g", "h"];
    // names whose UTF-16 length differs from their char count, non-ASCII case pairs, punctuation
    // between 'Z' and 'a', a 31-unit name: what the directory entry codec has to get right
    let exotic = ["a", "B", "日本", "𐐀x", "x😀", "éa", "_b", "ǅx", "a name of thirty-one units ....", "n\u{0}", "\u{0}", "p\u{0}q"];
    let cyc = ["t1", "t2"];
    for h in 0..count {
        let mut r = rng.fork();
        let pool = if r.chance(1, 4) { &exotic[..] } else { &plain[..] };
        let version = if r.chance(1, 2) { "3" } else { "4" };
        let mut real = Real::new();
        let mut model = RefModel::new();
        let mut open: BTreeMap<u32, String> = BTreeMap::new();
        // one history in three on an underlying file that splits transfers (short counts, Interrupted):
        // the bytes must still be the model's
        let mut pending: Vec<String> = vec![match h % 6 { 1 => format!("create {} - short", version), 4 => format!("create {} - intr", version), _ => format!("create {}", version) }];
        if cfg.mini_churn {
            let per = if version == "3" { 128usize } else { 1024 };
            // enough small streams for 2-3 MiniFAT sectors (a stream of 4000 B = 63 mini sectors)
            let n = (per * (2 + r.below(2) as usize)) / 60 + 2 + r.below(3) as usize;
            for i in 0..n {
                pending.push(format!("put {} {}", enc(&format!("/m{}", i)), hex(&pattern(3600 + r.below(496) as usize, h * 31 + i as u64))));
            }
            // drain from the end, keeping the first `keep` streams
            let keep = r.below(3) as usize;
            for i in (keep..n).rev() {
                pending.push(format!("rm {}", enc(&format!("/m{}", i))));
            }
            for i in 0..(n / 2 + 1) {
                pending.push(format!("put {} {}", enc(&format!("/r{}", i)), hex(&pattern(2000 + r.below(2000) as usize, h * 17 + i as u64))));
            }
        }
        if cfg.many_entries {
            let n = 35 + r.below(36) as usize;
            let dirs = ["", "/d1", "/d2", "/d1/in"];
            pending.push(format!("mkdir {}", enc("/d1")));
            pending.push(format!("mkdir {}", enc("/d2")));
            pending.push(format!("mkdir {}", enc("/d1/in")));
            let mut made: Vec<String> = Vec::new();
            for i in 0..n {
                let p = format!("{}/e{}", r.pick(&dirs), i);
                pending.push(format!("put {} {}", enc(&p), hex(&pattern(*r.pick(&[0usize, 1, 20, 64, 100]), i as u64))));
                made.push(p);
                if i % 7 == 6 {
                    // free a slot somewhere in the middle and reuse it at once
                    let k = r.below(made.len() as u64) as usize;
                    let victim = made.remove(k);
                    pending.push(format!("rm {}", enc(&victim)));
                    pending.push(format!("put {} {}", enc(&format!("/n{}", i)), hex(&pattern(30, i as u64))));
                    made.push(format!("/n{}", i));
                }
            }
            pending.push(format!("rmall {}", enc("/d1")));
        }
        let n_ops = 6 + r.below(max_ops);
        let mut done = 0u64;
        let mut hash: u64 = 1469598103934665603;
        let mut judge = CycleJudge::default();
        let mut dead = false;
        while (done < n_ops || !pending.is_empty()) && !dead {
            let line = if !pending.is_empty() {
                pending.remove(0)
            } else {
                let streams: Vec<String> = model.all_paths().into_iter().filter(|(_, s)| *s).map(|(p, _)| p).collect();
                let held: Vec<String> = open.values().cloned().collect();
                let free_streams: Vec<&String> = streams.iter().filter(|p| !held.contains(p)).collect();
                let ids: Vec<u32> = open.keys().cloned().collect();
                let w = r.below(100);
                if cfg.cycles && w < 8 && open.get(&7).is_none() {
                    let mut body = gen_cycle(&mut r, &cyc, h * 131 + done);
                    if !open.is_empty() && body.iter().any(|l| l.starts_with("reopen")) {
                        body.retain(|l| !l.starts_with("reopen"));
                    }
                    pending.push("cyc begin".into());
                    for _ in 0..(3 + r.below(2)) {
                        pending.extend(body.iter().cloned());
                        pending.push("cyc rep".into());
                    }
                    pending.push("cyc end".into());
                    continue;
                } else if w < 8 + cfg.reopen_pct && open.is_empty() {
                    format!("reopen {}", if r.chance(1, 2) { "strict" } else { "permissive" })
                } else if w < 40 {
                    let p = format!("/{}", r.pick(&pool));
                    if held.contains(&p) { "walk".to_string() } else {
                        let n = if cfg.big && r.chance(1, 12) { 70000 + r.below(3) as usize * 30000 } else { *r.pick(SIZES) };
                        format!("put {} {}", enc(&p), hex(&pattern(n, h * 977 + done)))
                    }
                } else if w < 50 && !free_streams.is_empty() {
                    // now and then the wrong kind of object: the root or a storage (refused; must not touch a sector)
                    if r.chance(1, 12) { format!("rm {}", enc(*r.pick(&["/", "/s1"]))) } else { format!("rm {}", enc(&**r.pick(&free_streams))) }
                } else if w < 54 {
                    let p = format!("/{}", r.pick(&["s1", "s2"]));
                    match r.below(4) {
                        0 => format!("mkdir {}", enc(&p)),
                        1 => format!("mkdirs {}", enc(&format!("{}/in/ner", p))),
                        2 => { let q = format!("{}/{}", p, r.pick(&pool)); if held.contains(&q) { "walk".into() } else { format!("put {} {}", enc(&q), hex(&pattern(*r.pick(SIZES), done))) } }
                        _ => if held.iter().any(|hp| hp.starts_with(&p)) { "walk".into() } else { format!("rmall {}", enc(&p)) },
                    }
                } else if cfg.handles && w < 60 && open.len() < 3 && !free_streams.is_empty() {
                    let id = (0..6).find(|i| !open.contains_key(i)).unwrap();
                    let p = (*r.pick(&free_streams)).clone();
                    open.insert(id, p.clone());
                    format!("hopen {} {}", id, enc(&p))
                } else if cfg.handles && w < 63 && open.len() < 3 {
                    let id = (0..6).find(|i| !open.contains_key(i)).unwrap();
                    let p = format!("/{}", r.pick(&pool));
                    if held.contains(&p) { "walk".to_string() } else {
                        open.insert(id, p.clone());
                        format!("hcreate {} {}", id, enc(&p))
                    }
                } else if cfg.setlen_heavy && w < 90 && !ids.is_empty() && r.chance(3, 5) {
                    // resize, then read everything back through the same handle
                    let id = *r.pick(&ids);
                    let cur = model.handle_len(id).unwrap_or(0);
                    let unit = *r.pick(&[64usize, 512, 4096]);
                    let target = match r.below(8) {
                        0 => cur.saturating_sub(r.below(70) as usize),
                        1 => cur + r.below(70) as usize,
                        2 => (cur / unit + 1) * unit,
                        3 => (cur / unit + 2) * unit,
                        4 => (cur / unit) * unit,
                        5 => (cur / unit + 1) * unit + 1,
                        6 => cur / 2 + 1,
                        _ => *r.pick(SIZES),
                    };
                    pending.push(format!("hseek {} 0", id));
                    pending.push(format!("hread {} {}", id, target + 10));
                    format!("hsetlen {} {}", id, target)
                } else if w < 90 && !ids.is_empty() {
                    let id = *r.pick(&ids);
                    match r.below(12) {
                        0..=2 => format!("hwrite {} {}", id, hex(&pattern(*r.pick(SIZES), done * 3 + h))),
                        3 | 4 => format!("hsetlen {} {}", id, r.pick(SIZES)),
                        5 => format!("hseek {} {}", id, r.pick(SIZES)),
                        6 => format!("hseek {} 0", id),
                        7 | 8 => format!("hread {} {}", id, r.pick(SIZES)),
                        9 => format!("hflush {}", id),
                        _ => { open.remove(&id); format!("hclose {}", id) }
                    }
                } else if w < 94 && !free_streams.is_empty() {
                    format!("get {}", enc(&**r.pick(&free_streams)))
                } else {
                    "walk".to_string()
                }
            };
            if line.starts_with("reopen") {
                open.clear();
            }
            for b in line.bytes() {
                hash = (hash ^ b as u64).wrapping_mul(1099511628211);
            }
            let is_cyc = line.starts_with("cyc ");
            let observed = if is_cyc { "ok".to_string() } else { real.exec(&line) };
            let expected = if is_cyc { None } else { model.apply(&line) };
            if let Some(v) = judge.on(&line, &real) {
                out.violations.push(format!("history {} (seed {}) step {}: {}", h, seed, done, v));
            }
            if line == "cyc end" {
                *out.hist.entry("cycle:judged".into()).or_insert(0) += 1;
            }
            let kind = line.split(' ').next().unwrap().to_string();
            let okind: String = observed.split(' ').take(if observed.starts_with("err") { 2 } else { 1 }).collect::<Vec<_>>().join(" ");
            *out.hist.entry(format!("{}:{}", kind, okind)).or_insert(0) += 1;
            if let Some(exp) = expected {
                if exp != observed {
                    out.violations.push(format!("history {} (seed {}) step {}: {} gave {} but the abstract tree model says {}", h, seed, done, short(&line), short(&observed), short(&exp)));
                    dead = true;
                }
            }
            // C02: at a quiescent boundary the bytes alone must reopen to the live state
            if !dead && observed != "panic" && !model.any_dirty() && (r.chance(1, 5) || done + 1 == n_ops || (cfg.mini_churn && r.chance(1, 2))) {
                *out.hist.entry("c02:boundary-judged".into()).or_insert(0) += 1;
                if let Some(v) = catch(|| reopen_violation(&mut real)).unwrap_or_else(|m| Some(format!("panic while reopening the bytes: {}", m))) {
                    out.violations.push(format!("history {} (seed {}) step {}: after {}: {}", h, seed, done, short(&line), v));
                    dead = true;
                }
                if let (Some(dir), true) = (snapdir, r.chance(1, 3)) {
                    std::fs::write(format!("{}/h{}_{}.cfb", dir, h, done), real.image()).unwrap();
                }
            }
            writeln!(ops_out, "{}", line).unwrap();
            writeln!(impl_out, "{} | {}", observed, catch(|| tail(&real)).unwrap_or_else(|_| "-".into())).unwrap();
            out.ops += 1;
            done += 1;
            if observed == "panic" {
                dead = true;
            }
        }
        out.histories += 1;
        out.distinct.insert(hash);
    }
    std::fs::write(ops_path, ops_out).unwrap();
    std::fs::write(impl_path, impl_out).unwrap();
    out
}

/// C03 at scale: a V3 file with more than 236 FAT sectors (two DIFAT sectors), written as three
/// streams with removals in between; the ops go to `ops_path`, the final image to `<dir>/huge_v3.cfb`.
pub fn huge(dir: &str, ops_path: &str, impl_path: &str) -> Vec<String> {
    huge_v(dir, ops_path, impl_path, false)
}

/// the same history in either format version (`v4`: 18 MB are only 4 500 sectors there — 5 FAT sectors)
pub fn huge_v(dir: &str, ops_path: &str, impl_path: &str, v4: bool) -> Vec<String> {
    let mb = 1usize << 20;
    let lines: Vec<String> = vec![
        if v4 { "create 4".into() } else { "create 3".into() },
        format!("putpat {} {} 1", enc("/a"), 5 * mb + 300),
        format!("putpat {} {} 2", enc("/small"), 1000),
        format!("putpat {} {} 3", enc("/b"), 6 * mb + 17),
        format!("rm {}", enc("/a")),
        format!("putpat {} {} 4", enc("/c"), 9 * mb + 4096),
        format!("mkdir {}", enc("/d")),
        format!("putpat {} {} 5", enc("/d/e"), 2 * mb),
    ];
    let mut real = Real::new();
    let mut model = RefModel::new();
    let mut ops_out = String::new();
    let mut impl_out = String::new();
    let mut violations = vec![];
    for (i, line) in lines.iter().enumerate() {
        let observed = real.exec(line);
        if observed == "panic" {
            violations.push(format!("history 0 (seed 0) step {}: {} panicked: {}", i, short(line), real.last_panic.clone().unwrap_or_default().chars().take(160).collect::<String>()));
        }
        if let Some(exp) = model.apply(line) {
            if exp != observed {
                violations.push(format!("history 0 (seed 0) step {}: {} gave {} but the abstract tree model says {}", i, short(line), short(&observed), short(&exp)));
            }
        }
        writeln!(ops_out, "{}", line).unwrap();
        writeln!(impl_out, "{} | {}", observed, tail(&real)).unwrap();
        if observed == "panic" {
            break;
        }
    }
    if violations.is_empty() {
      if let Some(v) = reopen_violation(&mut real) {
        violations.push(format!("history 0 (seed 0) step {}: after the huge history: {}", lines.len(), v));
      }
    }
    std::fs::write(format!("{}/huge_v{}.cfb", dir, if v4 { 4 } else { 3 }), real.image()).unwrap();
    std::fs::write(ops_path, ops_out).unwrap();
    std::fs::write(impl_path, impl_out).unwrap();
    println!("STAT huge_bytes {}", real.image().len());
    // the logical content (walk with metadata, every stream's bytes): must not depend on the format version
    println!("STAT dump_hash {}", fnv(real.dump().as_bytes()) % 1_000_000_007);
    violations
}

/// C15 at a size where the free list is long: a version-3 file in which one repetition releases more than 65 536
/// sectors at once (a 34 MiB stream, 69 632 sectors of 512 bytes), repeated; the backing file must have the
/// same length after every repetition from the first on (nothing else lives in the file, so even the
/// "from the second repetition on" reading has nothing to explain a growth with).
pub fn huge_cycle() -> Vec<String> {
    let mb = 1usize << 20;
    let mut real = Real::new();
    let mut violations = vec![];
    let mut lens: Vec<usize> = Vec::new();
    let mut lines = vec!["create 3".to_string(), format!("putpat {} {} 9", enc("/keep"), 700)];
    for rep in 0..4 {
        lines.push(format!("putpat {} {} {}", enc("/big"), 34 * mb + 77, rep + 1));
        lines.push(format!("rm {}", enc("/big")));
        lines.push("len".to_string());
    }
    for (i, line) in lines.iter().enumerate() {
        if line == "len" {
            lens.push(real.image().len());
            continue;
        }
        let observed = real.exec(line);
        if observed == "panic" || observed.starts_with("err") {
            violations.push(format!("history 0 (seed 0) step {}: {} gave {}", i, short(line), short(&observed)));
            break;
        }
    }
    println!("STAT huge_cycle_lens {}", lens.iter().map(|l| l.to_string()).collect::<Vec<_>>().join(","));
    for k in 1..lens.len() {
        if lens[k] != lens[0] {
            violations.push(format!("history 0 (seed 0) step {}: cycle [create a 34 MiB stream; remove it] in a version-3 file: the file has {} bytes after repetition {} but had {} after repetition 1 (all of it had been released)", 3 * k + 3, lens[k], k + 1, lens[0]));
            break;
        }
    }
    if violations.is_empty() {
        if let Some(v) = reopen_violation(&mut real) {
            violations.push(format!("history 0 (seed 0) step {}: after the huge cycles: {}", lines.len(), v));
        }
    }
    violations
}

/// C07 at the size where the tables change shape: two handles on different streams append alternately until a
/// version-3 file passes 110 FAT sectors (first DIFAT sector), with bystanders of every kind (a regular stream
/// with state bits, a mini stream, a storage with a stream, a stream created late); every result is compared with
/// the abstract model, at the end the bytes are reopened in both modes against the live state.
pub fn huge_handles(ops_path: &str) -> Vec<String> {
    let mut lines: Vec<String> = vec![
        "create 3".into(),
        format!("putpat {} {} 1", enc("/keep"), 5000),
        format!("setbits {} 77", enc("/keep")),
        format!("putpat {} {} 2", enc("/small"), 100),
        format!("mkdir {}", enc("/dir")),
        format!("putpat {} {} 3", enc("/dir/x"), 9000),
        format!("mkstream {}", enc("/a")),
        format!("mkstream {}", enc("/b")),
        format!("hopen 0 {}", enc("/a")),
        format!("hopen 1 {}", enc("/b")),
    ];
    for round in 0..76u64 {
        lines.push(format!("hwrite 0 {}", hex(&pattern(50_000, round))));
        lines.push(format!("hwrite 1 {}", hex(&pattern(50_000, 1000 + round))));
        if round == 40 {
            lines.push(format!("putpat {} {} 4", enc("/late"), 700));
        }
    }
    lines.push("hflush 0".into());
    lines.push("hflush 1".into());
    lines.push("hclose 0".into());
    lines.push("hclose 1".into());
    let mut real = Real::new();
    let mut model = RefModel::new();
    let mut violations = vec![];
    for (i, line) in lines.iter().enumerate() {
        let observed = real.exec(line);
        if observed == "panic" {
            violations.push(format!("history 0 (seed 0) step {}: {} panicked: {}", i, short(line), real.last_panic.clone().unwrap_or_default().chars().take(160).collect::<String>()));
            break;
        }
        if let Some(exp) = model.apply(line) {
            if exp != observed {
                violations.push(format!("history 0 (seed 0) step {}: {} gave {} but the abstract tree model says {}", i, short(line), short(&observed), short(&exp)));
                break;
            }
        }
    }
    if violations.is_empty() {
        let live = real.dump();
        let expect = model.dump();
        if live != expect {
            violations.push(format!("history 0 (seed 0) step {}: after two handles appended 3.8 MB each: the file shows {} but the abstract tree model says {}", lines.len(), short(&live), short(&expect)));
        } else if let Some(v) = reopen_violation(&mut real) {
            violations.push(format!("history 0 (seed 0) step {}: after two handles appended 3.8 MB each: {}", lines.len(), v));
        }
    }
    std::fs::write(ops_path, lines.iter().map(|l| if l.len() > 200 { format!("{}...", &l[..200]) } else { l.clone() }).collect::<Vec<_>>().join("\n") + "\n").unwrap();
    println!("STAT huge_bytes {}", real.image().len());
    violations
}

/// Re-executes an ops file; `image <file>` lines write the real image to `<file>.impl`.
pub fn replay(ops_path: &str, impl_path: &str) -> Vec<String> {
    let text = std::fs::read_to_string(ops_path).unwrap();
    let mut real = Real::new();
    let mut model = RefModel::new();
    let mut impl_out = String::new();
    let mut violations = Vec::new();
    let mut judge = CycleJudge::default();
    for (i, line) in text.lines().enumerate() {
        if line.is_empty() || line.starts_with('#') {
            continue;
        }
        if line.starts_with("create ") {
            real = Real::new();
            model = RefModel::new();
        }
        if let Some(path) = line.strip_prefix("image ") {
            std::fs::write(format!("{}.impl", path), real.image()).unwrap();
            writeln!(impl_out, "ok | {}", tail(&real)).unwrap();
            continue;
        }
        let is_cyc = line.starts_with("cyc ");
        let observed = if is_cyc { "ok".to_string() } else { real.exec(line) };
        if let Some(v) = judge.on(line, &real) {
            violations.push(format!("step {}: {}", i, v));
        }
        if let Some(exp) = if is_cyc { None } else { model.apply(line) } {
            if exp != observed {
                violations.push(format!("step {}: {} gave {} but the abstract tree model says {}", i, short(line), short(&observed), short(&exp)));
            }
        }
        if observed != "panic" && !model.any_dirty() {
            if let Some(v) = catch(|| reopen_violation(&mut real)).unwrap_or_else(|m| Some(format!("panic while reopening the bytes: {}", m))) {
                violations.push(format!("step {}: after {}: {}", i, short(line), v));
            }
        }
        writeln!(impl_out, "{} | {}", observed, catch(|| tail(&real)).unwrap_or_else(|_| "-".into())).unwrap();
    }
    std::fs::write(impl_path, impl_out).unwrap();
    violations
}

/// C04: synthesised foreign layouts.  For each case: the library must open the image in both modes and
/// expose exactly the logical content that was laid out; then a short history runs on the opened file
/// (results against the abstract model, reopen oracle at the end).  Images go to `<outdir>/L<k>.cfb`
/// (for the Raw model and SpecCheck), the mutated ones to `<outdir>/L<k>_after.cfb`.
pub fn layouts(seed: u64, count: u64, outdir: &str, big: bool, with_full_difat: bool, ops_path: Option<&str>, impl_path: Option<&str>) -> Outcome {
    let mut ops_out = String::new();
    let mut impl_out = String::new();
    use crate::layout::*;
    let mut rng = Rng::new(seed);
    let mut out = Outcome { ops: 0, histories: 0, hist: Default::default(), distinct: Default::default(), violations: vec![] };
    for k in 0..count {
        let mut r = rng.fork();
        let max_entries = if big { 40 } else if r.chance(1, 3) { 26 } else { 14 };
        let tree = gen_tree(&mut r, max_entries, big);
        let mut cfg = LayoutCfg { v4: r.chance(1, 2), wrap_to_zero: r.chance(1, 3), free_gaps: r.chance(2, 3), extra_dir_sector: r.chance(1, 4), spare_fat: r.chance(1, 4), min_fat: 0 };
        // now and then a version-3 file whose DIFAT is exactly full (109 header slots + one DIFAT sector of 127): the
        // file is then grown until the library appends a FAT sector, which needs a second DIFAT sector
        // (only where asked for: the reader model needs minutes for the deviations of a 30 000-cell FAT)
        let full_difat = with_full_difat && !big && k % 23 == 7;
        if full_difat {
            cfg = LayoutCfg { v4: false, wrap_to_zero: false, free_gaps: cfg.free_gaps, extra_dir_sector: cfg.extra_dir_sector, spare_fat: false, min_fat: 236 };
            *out.hist.entry("layout:full-difat-sector(236 FAT sectors)".to_string()).or_insert(0) += 1;
        }
        let img = build(&tree, &cfg, &mut r);
        let path = format!("{}/L{}.cfb", outdir, k);
        std::fs::write(&path, &img).unwrap();
        out.distinct.insert(fnv(&img));
        *out.hist.entry(format!("layout:v{}{}{}", if cfg.v4 { 4 } else { 3 }, if cfg.wrap_to_zero { "+wrap" } else { "" }, if cfg.free_gaps { "+gaps" } else { "" })).or_insert(0) += 1;
        if cfg.spare_fat && !cfg.wrap_to_zero {
            *out.hist.entry("layout:spare-fat-sector".to_string()).or_insert(0) += 1;
        }
        let mut model = RefModel::new();
        model.apply("create 3");
        let mut lines = Vec::new();
        ops_of(&tree, &mut lines);
        for l in &lines {
            if model.apply(l).as_deref() != Some("ok") {
                out.violations.push(format!("layout {} (seed {}): harness error: reference model refused {}", k, seed, short(l)));
            }
        }
        let expected = model.dump();
        let mut bad = false;
        for strict in [true, false] {
            let mode = if strict { "strict" } else { "permissive" };
            let got = catch(|| {
                let r = if strict { CompoundFile::open_strict(std::io::Cursor::new(img.clone())) } else { CompoundFile::open(std::io::Cursor::new(img.clone())) };
                match r {
                    Ok(c) => crate::api::dump_of(c),
                    Err(e) => format!("err {} ({})", err_kind(&e), e),
                }
            }).unwrap_or_else(|m| format!("panic {}", m));
            out.ops += 1;
            if got != expected {
                bad = true;
                out.violations.push(format!("layout {} (seed {}): {} open of {} gives {} but the file encodes {}", k, seed, mode, path, short(&got), short(&expected)));
            }
        }
        if bad {
            continue;
        }
        // MS-CFB 2.6.3: in a version 3 file the most significant 32 bits of a stream's size "SHOULD be
        // set to zero" by writers and are to be ignored by readers: the same image with other bits
        // there must open to the same content in both modes
        if !cfg.v4 {
            let mut img2 = img.clone();
            let l = crate::mutate::layout(&img2);
            let per = l.s / 128;
            for i in 1..l.dir_sectors.len() * per {
                let o = (l.dir_sectors[i / per] + 1) * l.s + (i % per) * 128;
                if o + 128 <= img2.len() && img2[o + 66] == 2 {
                    let g: u32 = match r.below(4) { 0 => 0xffff_ffff, 1 => 1, 2 => 0xcdcd_cdcd, _ => r.next() as u32 | 1 };
                    img2[o + 124..o + 128].copy_from_slice(&g.to_le_bytes());
                }
            }
            for strict in [true, false] {
                let got = catch(|| {
                    let r = if strict { CompoundFile::open_strict(std::io::Cursor::new(img2.clone())) } else { CompoundFile::open(std::io::Cursor::new(img2.clone())) };
                    match r {
                        Ok(c) => crate::api::dump_of(c),
                        Err(e) => format!("err {} ({})", err_kind(&e), e),
                    }
                }).unwrap_or_else(|m| format!("panic {}", m));
                out.ops += 1;
                if got != expected {
                    let p2 = format!("{}/L{}_highbits.cfb", outdir, k);
                    let _ = std::fs::write(&p2, &img2);
                    out.violations.push(format!("layout {} (seed {}): {} open of {} (a version 3 file with non-zero high 32 bits in its stream size fields) gives {} but the file encodes {}", k, seed, if strict { "strict" } else { "permissive" }, p2, short(&got), short(&expected)));
                    break;
                }
            }
        }
        // mutate the foreign file
        let mut real = Real::new();
        let shared = SharedFile::new(img.clone());
        real.file = Some(crate::backend::ImageSource::Mem(shared.clone()));
        real.comp = CompoundFile::open(crate::backend::Backend::Mem(shared)).ok();
        writeln!(ops_out, "load {}", path).unwrap();
        writeln!(impl_out, "ok | {}", tail(&real)).unwrap();
        let pool = ["a", "Zeta", "new1", "new2", "x10", "日本"];
        for step in 0..(4 + r.below(10)) {
            let streams: Vec<String> = model.all_paths().into_iter().filter(|(_, s)| *s).map(|(p, _)| p).collect();
            let storages: Vec<String> = model.all_paths().into_iter().filter(|(p, s)| !*s && p != "/").map(|(p, _)| p).collect();
            let parent = if !storages.is_empty() && r.chance(1, 3) { r.pick(&storages).clone() } else { String::new() };
            let lines: Vec<String> = match r.below(12) {
                _ if full_difat && step == 0 => vec![format!("put {} {}", enc("/grow"), hex(&pattern(70000 + r.below(3000) as usize, 41)))],
                0..=3 => vec![format!("put {} {}", enc(&format!("{}/{}", parent, r.pick(&pool))), hex(&pattern(*r.pick(SIZES), step)))],
                4 | 5 | 9 if !streams.is_empty() => vec![format!("rm {}", enc(&r.pick(&streams)[..]))],
                6 => vec![format!("mkdir {}", enc(&format!("{}/{}", parent, r.pick(&pool))))],
                7 if !storages.is_empty() => vec![format!("rmall {}", enc(&r.pick(&storages)[..]))],
                8 if !streams.is_empty() => vec![format!("get {}", enc(&r.pick(&streams)[..]))],
                // resize a stream the other writer laid out — the space behind its end is not zero in these files —
                // to a (mini) sector boundary and read it back
                10 | 11 if !streams.is_empty() => {
                    let p = r.pick(&streams).clone();
                    let target = *r.pick(&[64usize, 128, 192, 512, 1024, 1536, 4096, 4608, 8192, 12288]);
                    vec![format!("hopen 7 {}", enc(&p)), format!("hsetlen 7 {}", target), "hclose 7".to_string(), format!("get {}", enc(&p))]
                }
                _ => vec!["walk".to_string()],
            };
            for line in lines {
                let observed = real.exec(&line);
                out.ops += 1;
                writeln!(ops_out, "{}", line).unwrap();
                writeln!(impl_out, "{} | {}", observed, catch(|| tail(&real)).unwrap_or_else(|_| "-".into())).unwrap();
                if let Some(exp) = model.apply(&line) {
                    if exp != observed {
                        // the markers layout.rs leaves in free sectors (c0 c1 c2 ...) and free mini sectors (b7 ...)
                        let stale = if observed.contains("c0c1c2c3c4c5c6c7c8c9") || observed.contains("b7b7b7b7b7b7b7b7b7b7") { " [STALE-FREE-SPACE: the bytes returned contain the marker of the file's free space]" } else { "" };
                        out.violations.push(format!("layout {} (seed {}): after opening {}: step {}: {} gave {} but the abstract tree model says {}{}", k, seed, path, step, short(&line), short(&observed), short(&exp), stale));
                        bad = true;
                        break;
                    }
                }
            }
            if bad {
                break;
            }
        }
        if !bad {
            if let Some(v) = catch(|| reopen_violation(&mut real)).unwrap_or_else(|m| Some(format!("panic while reopening the bytes: {}", m))) {
                out.violations.push(format!("layout {} (seed {}): after mutating {}: {}", k, seed, path, v));
            }
            std::fs::write(format!("{}/L{}_after.cfb", outdir, k), real.image()).unwrap();
        }
        out.histories += 1;
    }
    if let (Some(o), Some(i)) = (ops_path, impl_path) {
        std::fs::write(o, ops_out).unwrap();
        std::fs::write(i, impl_out).unwrap();
    }
    out
}
