//! C06 campaign: handle scripts on the real `Stream`, with an independent `Vec` cursor oracle.
//!
//! ops file (one op per line, consumed by the Lean driver `driver handle`):
//!   new <version> <maxbuf> <contenthex>
//!   read <n> | fill | consume <k> | write <hex> | seek start <n> | seek end <d> | seek cur <d>
//!   setlen <n> | flush | len | final
//! impl file: one line per op: `<out> | <total> <off> <pos> <cap> <datalen> <dirty>`
use crate::util::*;
use cfb::{CompoundFile, OpenOptions, Stream, Version};
use std::fmt::Write as _;
use std::io::{BufRead, Read, Seek, SeekFrom, Write};

#[derive(Clone, Debug)]
pub enum Op {
    New(u16, usize, Vec<u8>),
    Read(usize),
    Fill,
    Consume(usize),
    Write(Vec<u8>),
    Seek(SeekFrom),
    SetLen(u64),
    /// `set_len` beyond the format's capacity: must be refused with InvalidInput and change nothing;
    /// towards the model it is `len` (the call's answer is replaced by the length when it was refused)
    SetLenOver(u64),
    Flush,
    Len,
    Final,
}

impl Op {
    pub fn render(&self) -> String {
        match self {
            Op::New(v, m, c) => format!("new {} {} {}", v, m, hex(c)),
            Op::Read(n) => format!("read {}", n),
            Op::Fill => "fill".into(),
            Op::Consume(k) => format!("consume {}", k),
            Op::Write(b) => format!("write {}", hex(b)),
            Op::Seek(SeekFrom::Start(n)) => format!("seek start {}", n),
            Op::Seek(SeekFrom::End(d)) => format!("seek end {}", d),
            Op::Seek(SeekFrom::Current(d)) => format!("seek cur {}", d),
            Op::SetLen(n) => format!("setlen {}", n),
            Op::SetLenOver(n) => format!("setlen-over {}", n),
            Op::Flush => "flush".into(),
            Op::Len => "len".into(),
            Op::Final => "final".into(),
        }
    }
    pub fn parse(line: &str) -> Option<Op> {
        let t: Vec<&str> = line.split_whitespace().collect();
        Some(match t.as_slice() {
            ["new", v, m, c] => Op::New(v.parse().ok()?, m.parse().ok()?, unhex(c)),
            ["read", n] => Op::Read(n.parse().ok()?),
            ["fill"] => Op::Fill,
            ["consume", k] => Op::Consume(k.parse().ok()?),
            ["write", b] => Op::Write(unhex(b)),
            ["seek", "start", n] => Op::Seek(SeekFrom::Start(n.parse().ok()?)),
            ["seek", "end", d] => Op::Seek(SeekFrom::End(d.parse().ok()?)),
            ["seek", "cur", d] => Op::Seek(SeekFrom::Current(d.parse().ok()?)),
            ["setlen", n] => Op::SetLen(n.parse().ok()?),
            ["setlen-over", n] => Op::SetLenOver(n.parse().ok()?),
            ["flush"] => Op::Flush,
            ["len"] => Op::Len,
            ["final"] => Op::Final,
            _ => return None,
        })
    }
}

/// The specification side, independent of the Lean model: a byte vector with a cursor.
#[derive(Default)]
pub struct VecOracle {
    pub content: Vec<u8>,
    pub cursor: usize,
    pub violations: Vec<String>,
    last_fill: usize,
}

impl VecOracle {
    fn bad(&mut self, what: String) {
        self.violations.push(what);
    }
    /// Check one observed result against the specification and advance.
    pub fn observe(&mut self, op: &Op, out: &str) {
        let len = self.content.len();
        match op {
            Op::New(_, _, c) => {
                self.content = c.clone();
                self.cursor = 0;
            }
            Op::Read(_) | Op::Fill => {
                let n = if let Op::Read(n) = op { *n } else { usize::MAX };
                match out.strip_prefix("bytes ") {
                    Some(h) => {
                        let bs = unhex(h);
                        let rest = self.content[self.cursor..].to_vec();
                        if bs.len() > n || bs.len() > rest.len() || bs[..] != rest[..bs.len()] {
                            self.bad(format!("{} returned bytes that are not the stream's content at position {}", op.render(), self.cursor));
                        } else if bs.is_empty() && n > 0 && self.cursor < len {
                            self.bad(format!("{} returned 0 bytes before the end (position {}, len {})", op.render(), self.cursor, len));
                        }
                        if let Op::Read(_) = op {
                            self.cursor += bs.len().min(rest.len());
                        } else {
                            self.last_fill = bs.len();
                        }
                    }
                    None => self.bad(format!("{} gave {}", op.render(), out)),
                }
            }
            Op::Consume(k) => {
                if out != "unit" {
                    self.bad(format!("consume {} (within the slice of {}) gave {}", k, self.last_fill, out));
                }
                self.cursor = (self.cursor + k).min(len);
            }
            Op::Write(bs) => match out.strip_prefix("num ").and_then(|s| s.parse::<usize>().ok()) {
                Some(k) if k <= bs.len() && (k > 0 || bs.is_empty()) => {
                    let end = self.cursor + k;
                    if self.content.len() < end {
                        self.content.resize(end, 0);
                    }
                    self.content[self.cursor..end].copy_from_slice(&bs[..k]);
                    self.cursor = end;
                }
                _ => self.bad(format!("write of {} bytes gave {}", bs.len(), out)),
            },
            Op::Seek(p) => {
                let target: Option<usize> = match *p {
                    SeekFrom::Start(n) => if n <= len as u64 { Some(n as usize) } else { None },
                    SeekFrom::End(d) => {
                        let t = len as i128 + d as i128;
                        if t >= 0 && t <= len as i128 { Some(t as usize) } else { None }
                    }
                    SeekFrom::Current(d) => {
                        let t = self.cursor as i128 + d as i128;
                        if t >= 0 && t <= len as i128 { Some(t as usize) } else { None }
                    }
                };
                match target {
                    Some(t) => {
                        if out != format!("num {}", t) {
                            self.bad(format!("{} at position {} of {} gave {}, expected num {}", op.render(), self.cursor, len, out, t));
                        }
                        self.cursor = t;
                    }
                    None => {
                        if out != "err invalidInput" {
                            self.bad(format!("{} at position {} of {} gave {}, expected err invalidInput", op.render(), self.cursor, len, out));
                        }
                    }
                }
            }
            Op::SetLen(n) => {
                if out != "unit" {
                    self.bad(format!("setlen {} gave {}", n, out));
                }
                self.content.resize(*n as usize, 0);
                self.cursor = self.cursor.min(*n as usize);
            }
            Op::Flush => {
                if out != "unit" {
                    self.bad(format!("flush gave {}", out));
                }
            }
            Op::Len | Op::SetLenOver(_) => {
                if out != format!("num {}", len) {
                    self.bad(format!("len gave {}, expected num {}", out, len));
                }
            }
            Op::Final => {
                if out != format!("bytes {}", hex(&self.content)) {
                    self.bad("content read back by a fresh handle differs from the vector".to_string());
                }
            }
        }
    }
}

pub struct Real {
    comp: Option<CompoundFile<SharedFile>>,
    stream: Option<Stream<SharedFile>>,
    backing: Option<SharedFile>,
    /// C10: a refused call (an `err` result) left the backing bytes or the handle state changed
    pub refusal_violations: Vec<String>,
}

impl Real {
    pub fn new() -> Real {
        Real { comp: None, stream: None, backing: None, refusal_violations: vec![] }
    }

    fn state(&self) -> String {
        match &self.stream {
            Some(s) => {
                let (_id, total, off, pos, cap, dl, _max, dirty) = s.verif_state();
                format!("{} {} {} {} {} {}", total, off, pos, cap, dl, dirty as u8)
            }
            None => "-".into(),
        }
    }

    /// Executes one op on the real crate; returns the canonical output (without state).
    pub fn exec(&mut self, op: &Op) -> String {
        progress(&op.render());
        let before = match op {
            Op::New(..) | Op::Final => None,
            _ => self.backing.as_ref().map(|b| (b.snapshot(), self.state())),
        };
        let r = catch(|| self.exec_inner(op));
        let out = match r {
            Ok(s) => s,
            Err(_) => "panic".into(),
        };
        if let (Some((bytes, state)), true) = (before, out == "err invalidInput" || matches!(op, Op::SetLenOver(_))) {
            let now = self.backing.as_ref().unwrap().snapshot();
            if now != bytes {
                self.refusal_violations.push(format!("{} was refused ({}) but the file bytes changed", op.render(), out));
            } else if self.state() != state {
                self.refusal_violations.push(format!("{} was refused ({}) but the handle state changed from [{}] to [{}]", op.render(), out, state, self.state()));
            }
        }
        out
    }

    fn exec_inner(&mut self, op: &Op) -> String {
        let res = |r: std::io::Result<String>| match r {
            Ok(s) => s,
            Err(e) => format!("err {}", err_kind(&e)),
        };
        match op {
            Op::New(v, maxbuf, content) => {
                self.stream = None;
                self.comp = None;
                let version = if *v == 3 { Version::V3 } else { Version::V4 };
                let file = SharedFile::new(Vec::new());
                let mut comp = CompoundFile::create_with_version(version, file).unwrap();
                {
                    let mut s = comp.create_stream("/s").unwrap();
                    s.write_all(content).unwrap();
                }
                let file = comp.into_inner();
                self.backing = Some(file.alias());
                let mut comp = OpenOptions::new().max_buffer_size(*maxbuf).open_with(file).unwrap();
                self.stream = Some(comp.open_stream("/s").unwrap());
                self.comp = Some(comp);
                "unit".into()
            }
            Op::Read(n) => {
                let s = self.stream.as_mut().unwrap();
                let mut buf = vec![0u8; *n];
                res(s.read(&mut buf).map(|k| format!("bytes {}", hex(&buf[..k]))))
            }
            Op::Fill => {
                let s = self.stream.as_mut().unwrap();
                res(s.fill_buf().map(|b| format!("bytes {}", hex(b))))
            }
            Op::Consume(k) => {
                self.stream.as_mut().unwrap().consume(*k);
                "unit".into()
            }
            Op::Write(b) => res(self.stream.as_mut().unwrap().write(b).map(|k| format!("num {}", k))),
            Op::Seek(p) => res(self.stream.as_mut().unwrap().seek(*p).map(|k| format!("num {}", k))),
            Op::SetLen(n) => res(self.stream.as_mut().unwrap().set_len(*n).map(|_| "unit".into())),
            Op::Flush => res(self.stream.as_mut().unwrap().flush().map(|_| "unit".into())),
            Op::SetLenOver(n) => {
                let s = self.stream.as_mut().unwrap();
                match s.set_len(*n) {
                    Err(e) if err_kind(&e) == "invalidInput" => format!("num {}", s.len()),
                    Err(e) => format!("err {} !setlen-over", err_kind(&e)),
                    Ok(()) => "unit !setlen-over-accepted".into(),
                }
            }
            Op::Len => {
                let s = self.stream.as_ref().unwrap();
                // `is_empty` is not part of the protocol: it must agree with `len`
                if s.is_empty() != (s.len() == 0) { format!("num {} !inconsistent:is_empty", s.len()) } else { format!("num {}", s.len()) }
            }
            Op::Final => {
                self.stream = None;
                let comp = self.comp.as_mut().unwrap();
                let mut s = comp.open_stream("/s").unwrap();
                let mut v = Vec::new();
                res(s.read_to_end(&mut v).map(|_| format!("bytes {}", hex(&v))))
            }
        }
    }
}

const MAXBUFS: &[usize] = &[0, 1, 1023, 1024, 1025, 1500, 4096, 4097, 65536, 1 << 20];
const LENS: &[usize] = &[0, 1, 63, 64, 65, 511, 512, 513, 1000, 1023, 1024, 1025, 2048, 4095, 4096, 4097, 5000, 8192, 20000, 70000];
const CHUNKS: &[usize] = &[0, 1, 2, 10, 64, 100, 700, 1023, 1024, 1025, 3000, 4096, 5000];

fn gen_seek(rng: &mut Rng, len: u64, pos: u64) -> SeekFrom {
    let ext: &[i64] = &[i64::MIN, i64::MIN + 1, i64::MAX, -1, 0, 1];
    match rng.below(10) {
        0 => SeekFrom::Start(len + 1 + rng.below(5)),
        1 => SeekFrom::Start(*rng.pick(&[u64::MAX, u64::MAX - 1, 1 << 63, (1 << 63) - 1])),
        2 => SeekFrom::End(*rng.pick(ext)),
        3 => SeekFrom::Current(*rng.pick(ext)),
        4 => SeekFrom::End(-(len as i64) - (rng.below(3) as i64) + 1),
        5 => SeekFrom::Current(-(pos as i64) - (rng.below(3) as i64) + 1),
        6 => SeekFrom::Current((len - pos.min(len)) as i64 + rng.below(3) as i64 - 1),
        7 => SeekFrom::End(-(rng.below(len + 1) as i64)),
        8 => SeekFrom::Current(rng.below(2049) as i64 - 1024),
        _ => SeekFrom::Start(rng.below(len + 1)),
    }
}

pub struct Stats {
    pub scripts: u64,
    pub ops: u64,
    pub hist: std::collections::BTreeMap<String, u64>,
    pub distinct: std::collections::HashSet<u64>,
}

/// Generates and executes `count` scripts; writes ops/impl files; returns oracle violations.
pub fn campaign(seed: u64, count: u64, max_ops: u64, ops_path: &str, impl_path: &str) -> (Stats, Vec<String>) {
    let mut rng = Rng::new(seed);
    let mut ops_out = String::new();
    let mut impl_out = String::new();
    let mut violations = Vec::new();
    let mut stats = Stats { scripts: 0, ops: 0, hist: Default::default(), distinct: Default::default() };
    for script in 0..count {
        let mut r = rng.fork();
        let version = if r.chance(1, 2) { 3 } else { 4 };
        let maxbuf = *r.pick(MAXBUFS);
        let len0 = *r.pick(LENS);
        let first = Op::New(version, maxbuf, pattern(len0, script));
        let mut real = Real::new();
        let mut oracle = VecOracle::default();
        let mut script_hash: u64 = 1469598103934665603;
        let mut last_fill: Option<usize> = None;
        let n_ops = 1 + r.below(max_ops);
        let mut i = 0;
        let mut op = first;
        loop {
            let line = op.render();
            for b in line.bytes() {
                script_hash = (script_hash ^ b as u64).wrapping_mul(1099511628211);
            }
            let out = real.exec(&op);
            let kind = line.split(' ').next().unwrap().to_string();
            *stats.hist.entry(format!("op:{}", kind)).or_insert(0) += 1;
            let outkind = out.split(' ').take(if out.starts_with("err") { 2 } else { 1 }).collect::<Vec<_>>().join(" ");
            *stats.hist.entry(format!("out:{}", outkind)).or_insert(0) += 1;
            oracle.observe(&op, &out);
            writeln!(ops_out, "{}", line).unwrap();
            writeln!(impl_out, "{} | {}", out, real.state()).unwrap();
            stats.ops += 1;
            last_fill = match (&op, out.strip_prefix("bytes ")) {
                (Op::Fill, Some(h)) => Some(unhex(h).len()),
                (Op::Consume(k), _) => last_fill.map(|l| l - k),
                _ => None,
            };
            if out == "panic" || matches!(op, Op::Final) {
                break;
            }
            i += 1;
            if i > n_ops {
                op = Op::Final;
                continue;
            }
            let (len, pos) = {
                let st = real.stream.as_ref().unwrap().verif_state();
                (st.1, st.2 + st.3 as u64)
            };
            op = match r.below(20) {
                0..=4 => Op::Read(*r.pick(CHUNKS)),
                5 | 6 => Op::Fill,
                7 | 8 => match last_fill {
                    Some(l) => Op::Consume(match r.below(3) { 0 => l, 1 => 0, _ => r.below(l as u64 + 1) as usize }),
                    None => Op::Fill,
                },
                9..=12 => Op::Write(pattern(*r.pick(CHUNKS), r.next() % 1000)),
                13..=15 => Op::Seek(gen_seek(&mut r, len, pos)),
                16 if r.below(6) == 0 => Op::SetLenOver(*r.pick(&[1u64 << 45, 0xFFFF_FFFA * 4096 + 1, 1 << 63, u64::MAX, u64::MAX - 4095])),
                16 => Op::SetLen(match r.below(7) {
                    0 => *r.pick(LENS) as u64,
                    1 => len,
                    2 => pos,
                    // up to the next multiple of a (mini) sector size: the grown part ends exactly at a boundary
                    3 => { let u = *r.pick(&[64u64, 512, 4096]); (len / u + 1) * u }
                    // a little shorter, off every boundary: what follows in the sector is stale data
                    4 => len.saturating_sub(1 + r.below(63)),
                    5 => { let u = *r.pick(&[64u64, 512, 4096]); (len / u) * u }
                    _ => (len + r.below(3000)).saturating_sub(r.below(3000)),
                }),
                17 => Op::Flush,
                18 => Op::Len,
                _ => Op::Read(*r.pick(CHUNKS)),
            };
        }
        stats.scripts += 1;
        stats.distinct.insert(script_hash);
        for v in oracle.violations {
            violations.push(format!("script {} (seed {}): {}", script, seed, v));
        }
        for v in real.refusal_violations.drain(..) {
            violations.push(format!("script {} (seed {}): refused {}", script, seed, v));
        }
    }
    std::fs::write(ops_path, ops_out).unwrap();
    std::fs::write(impl_path, impl_out).unwrap();
    (stats, violations)
}

/// Re-executes an ops file (replay of a stored script); writes the impl file.
pub fn replay(ops_path: &str, impl_path: &str) -> Vec<String> {
    let text = std::fs::read_to_string(ops_path).unwrap();
    let mut real = Real::new();
    let mut oracle = VecOracle::default();
    let mut impl_out = String::new();
    let mut dead = false;
    for line in text.lines() {
        let Some(op) = Op::parse(line) else { continue };
        if let Op::New(..) = op {
            dead = false;
        }
        if dead {
            writeln!(impl_out, "skipped | -").unwrap();
            continue;
        }
        let out = real.exec(&op);
        oracle.observe(&op, &out);
        writeln!(impl_out, "{} | {}", out, real.state()).unwrap();
        if out == "panic" {
            dead = true;
        }
    }
    std::fs::write(impl_path, impl_out).unwrap();
    let mut v = oracle.violations;
    v.extend(real.refusal_violations.drain(..).map(|m| format!("refused {}", m)));
    v
}
