//! C16: each documented tolerated deviation, injected at every applicable place of valid images.
//! Expected: permissive open exposes the same logical content as the undamaged file; strict open
//! rejects it.  Output: ORACLE lines for violations, a list file of the generated images.
use crate::mutate::layout;
use crate::raw::open_dump;
use crate::util::*;

fn rd32(b: &[u8], off: usize) -> u32 {
    if off + 4 <= b.len() { u32::from_le_bytes([b[off], b[off + 1], b[off + 2], b[off + 3]]) } else { 0 }
}
fn wr32(b: &mut [u8], off: usize, v: u32) {
    if off + 4 <= b.len() {
        b[off..off + 4].copy_from_slice(&v.to_le_bytes());
    }
}

pub struct Dev {
    pub kind: &'static str,
    pub place: usize,
    pub image: Vec<u8>,
}

/// All single deviations applicable to `b` (a valid image produced by the library).
pub fn deviations(b: &[u8]) -> Vec<Dev> {
    let l = layout(b);
    let s = l.s;
    let mut out = Vec::new();
    let mut push = |kind: &'static str, place: usize, f: &dyn Fn(&mut Vec<u8>)| {
        let mut img = b.to_vec();
        f(&mut img);
        if img != b {
            out.push(Dev { kind, place, image: img });
        }
    };
    let per = s / 4;
    // FAT cells beyond the file's sector count padded with zero (last FAT sector)
    if let Some(&fs) = l.fat_sectors.last() {
        // (a file may have more FAT sectors than it needs: then the last one lies wholly beyond the sector count)
        let first = l.nsec.saturating_sub((l.fat_sectors.len() - 1) * per);
        if first < per && l.nsec >= (l.fat_sectors.len() - 1) * per {
            push("zeroPaddedFat", fs, &|img| {
                for i in first..per {
                    wr32(img, (fs + 1) * s + 4 * i, 0);
                }
            });
        }
    }
    // FAT sectors not marked as such in the FAT
    for (k, &fs) in l.fat_sectors.iter().enumerate() {
        if b.len() > (4 << 20) && k > 2 && k + 1 < l.fat_sectors.len() {
            continue; // very large base: the first three and the last FAT sector only
        }
        let cell_sector = l.fat_sectors[fs / per];
        push("unmarkedFatSector", k, &|img| wr32(img, (cell_sector + 1) * s + 4 * (fs % per), 0xffff_fffe));
        // "not marked" is whatever else the cell may hold: the free marker, zero (a writer that never filled
        // the cell in: as a sector number it is shared by every such cell, and sector 0 may well be linked to
        // by a chain), a number beyond the file, the reserved value below DIFSECT
        for (j, v) in [0xffff_ffffu32, 0, 1, l.nsec as u32 + 7, 0xffff_fffb].iter().enumerate() {
            push("unmarkedFatSector", 1000 * (j + 1) + k, &|img| wr32(img, (cell_sector + 1) * s + 4 * (fs % per), *v));
        }
    }
    // header: DIFAT chain "ended" by the free marker, wrong sector counts
    if rd32(b, 72) == 0 {
        push("difatEndsFree", 0, &|img| wr32(img, 68, 0xffff_ffff));
    }
    // files with DIFAT sectors (> 109 FAT sectors): the DIFAT-specific deviations
    let n_difat = rd32(b, 72) as usize;
    if n_difat > 0 && n_difat < 64 {
        // the DIFAT chain and the complete list of FAT sectors
        let mut difat_secs: Vec<usize> = Vec::new();
        let mut all_fat: Vec<u32> = (0..109).map(|i| rd32(b, 76 + 4 * i)).collect();
        let mut cur = rd32(b, 68) as usize;
        while cur < l.nsec && difat_secs.len() < n_difat {
            difat_secs.push(cur);
            for i in 0..(per - 1) {
                all_fat.push(rd32(b, (cur + 1) * s + 4 * i));
            }
            cur = rd32(b, (cur + 1) * s + s - 4) as usize;
        }
        let used = all_fat.iter().take_while(|v| **v != 0xffff_ffff).count();
        let fat_cell = |id: usize| -> Option<usize> {
            let fs = *all_fat.get(id / per)? as usize;
            if fs < l.nsec { Some((fs + 1) * s + 4 * (id % per)) } else { None }
        };
        for (k, &d) in difat_secs.iter().enumerate() {
            if let Some(off) = fat_cell(d) {
                push("unmarkedDifatSector", k, &|img| wr32(img, off, 0xffff_fffe));
                for (j, v) in [0xffff_ffffu32, 0, 1, l.nsec as u32 + 7].iter().enumerate() {
                    push("unmarkedDifatSector", 1000 * (j + 1) + k, &|img| wr32(img, off, *v));
                }
            }
        }
        if let Some(&last) = difat_secs.last() {
            // the chain of DIFAT sectors ended by the free marker instead of END_OF_CHAIN
            push("difatEndsFree", 1 + last, &|img| wr32(img, (last + 1) * s + s - 4, 0xffff_ffff));
            // unused entries of the last DIFAT sector padded with zero instead of FREE
            let first_unused = used - 109 - (difat_secs.len() - 1) * (per - 1);
            if first_unused < per - 1 {
                push("zeroPaddedDifat", last, &|img| {
                    for i in first_unused..(per - 1) {
                        wr32(img, (last + 1) * s + 4 * i, 0);
                    }
                });
            }
        }
        push("wrongNumDifat", 1, &|img| { let v = rd32(img, 72); wr32(img, 72, v - 1) });
    }
    if rd32(b, 64) > 0 {
        push("wrongNumMiniFat", 1, &|img| { let v = rd32(img, 64); wr32(img, 64, v - 1) });
    }
    if rd32(b, 44) > 1 {
        push("wrongNumFat", 2, &|img| { let v = rd32(img, 44); wr32(img, 44, v - 1) });
    }
    push("wrongNumFat", 0, &|img| { let v = rd32(img, 44); wr32(img, 44, v + 1) });
    push("wrongNumFat", 1, &|img| wr32(img, 44, 0));
    push("wrongNumDifat", 0, &|img| { let v = rd32(img, 72); wr32(img, 72, v + 1) });
    push("wrongNumMiniFat", 0, &|img| { let v = rd32(img, 64); wr32(img, 64, v + 1) });
    if s == 512 {
        push("v3NumDir", 0, &|img| wr32(img, 40, 1 + l.dir_sectors.len() as u32));
    }
    // directory entries
    let dper = s / 128;
    let n = l.dir_sectors.len() * dper;
    let base = |i: usize| (l.dir_sectors[i / dper] + 1) * s + (i % dper) * 128;
    let typ = |i: usize| b[base(i) + 66];
    for i in 0..n {
        if b.len() > (4 << 20) {
            break;
        }
        let o = base(i);
        let t = typ(i);
        if t == 0 {
            continue;
        }
        let name_len = u16::from_le_bytes([b[o + 64], b[o + 65]]) as usize;
        if t == 5 {
            push("wrongRootName", i, &|img| { img[o] = b'r'; });
            // a wrong root name that would not be a legal object name (reserved characters; empty): the name of the
            // root is replaced, not validated
            push("wrongRootName", i + 100000, &|img| { img[o + 8] = b'/'; });
            push("wrongRootName", i + 200000, &|img| { img[o] = b'!'; img[o + 2] = b':'; img[o + 4] = b'\\'; });
            push("wrongRootName", i + 300000, &|img| { img[o + 64] = 2; img[o + 65] = 0; img[o] = 0; img[o + 1] = 0; });
        } else if name_len >= 2 && name_len < 64 {
            // the unit right after the name must be a terminator
            push("unterminatedName", i, &|img| { img[o + name_len - 2] = b'x'; });
        }
        if t == 2 {
            push("streamClsid", i, &|img| { img[o + 80] = 0x11; img[o + 95] = 0x22; });
            push("streamTimes", i, &|img| { img[o + 100] = 1; });
            push("streamTimes", i + 100000, &|img| { img[o + 108] = 1; });
        }
        if t == 1 {
            push("storageStart", i, &|img| wr32(img, o + 116, 0xffff_fffe));
            push("storageSize", i, &|img| { img[o + 120] = 7; });
        }
        // adjacent red nodes: this entry and one of its links
        if t != 5 {
            for (k, link_off) in [68usize, 72].iter().enumerate() {
                let c = rd32(b, o + link_off) as usize;
                if c < n {
                    let co = base(c);
                    push("redRed", i * 2 + k, &|img| { img[o + 67] = 0; img[co + 67] = 0; });
                }
            }
        }
    }
    // a MiniFAT longer than the root stream: one more (orphan, allocated) cell behind the used ones
    if let Some(&ms) = l.minifat_sectors.first() {
        let root_len = u64::from_le_bytes(b[base(0) + 120..base(0) + 128].try_into().unwrap()) as usize;
        let used = root_len / 64;
        if used < per {
            push("overlongMiniFat", used, &|img| wr32(img, (ms + 1) * s + 4 * used, 0xffff_fffe));
        }
    }
    out
}

pub fn run(seed: u64, bases: &str, outdir: &str, combos: u64, list_path: &str) {
    let mut rng = Rng::new(seed);
    let files: Vec<String> = std::fs::read_to_string(bases).unwrap().lines().filter(|l| !l.is_empty()).map(|s| s.to_string()).collect();
    std::fs::create_dir_all(outdir).unwrap();
    let mut list = String::new();
    let mut hist: std::collections::BTreeMap<String, u64> = Default::default();
    let mut k = 0u64;
    for f in files.iter() {
        let Ok(b) = std::fs::read(f) else { continue };
        let good_p = open_dump(b.clone(), false);
        let good_s = open_dump(b.clone(), true);
        if !good_p.starts_with("ok") || good_p != good_s {
            println!("ORACLE base image {} is not accepted identically by both modes: permissive {} / strict {}", f, &good_p[..good_p.len().min(80)], &good_s[..good_s.len().min(80)]);
            continue;
        }
        let devs = deviations(&b);
        let mut emit = |kinds: String, img: &[u8]| {
            let p = open_dump(img.to_vec(), false);
            let s = open_dump(img.to_vec(), true);
            *hist.entry(kinds.clone()).or_insert(0) += 1;
            let path = format!("{}/d{}.cfb", outdir, k);
            k += 1;
            std::fs::write(&path, img).unwrap();
            list.push_str(&path);
            list.push('\n');
            if p != good_p {
                println!("ORACLE deviation {} on {} (kept as {}): permissive open gave {} instead of the undamaged content", kinds, f, path, &p[..p.len().min(120)]);
            }
            if s != "err invalidData" {
                println!("ORACLE deviation {} on {} (kept as {}): strict open gave {} instead of err invalidData", kinds, f, path, &s[..s.len().min(120)]);
            }
        };
        for d in devs.iter() {
            emit(d.kind.to_string(), &d.image);
        }
        // random combinations: apply the byte differences of several deviations together
        for _ in 0..combos {
            if devs.len() < 2 {
                break;
            }
            let n = 2 + rng.below(3) as usize;
            let mut img = b.clone();
            let mut kinds = Vec::new();
            for _ in 0..n {
                let d = &devs[rng.below(devs.len() as u64) as usize];
                if d.image.len() != b.len() {
                    continue;
                }
                for (i, (x, y)) in d.image.iter().zip(b.iter()).enumerate() {
                    if x != y {
                        img[i] = *x;
                    }
                }
                kinds.push(d.kind);
            }
            kinds.sort();
            kinds.dedup();
            emit(format!("combo:{}", kinds.join("+")), &img);
        }
        // the same image with a U+0000 as the last character of one entry's name (legal: only / \ : !
        // are forbidden), when both modes still accept it identically: on it, the missing terminator is
        // the only thing a "is there a zero somewhere up to the terminator slot" check could hang on
        if let Some(b2) = nul_name_variant(&b) {
            let p2 = open_dump(b2.clone(), false);
            if p2.starts_with("ok") && p2 == open_dump(b2.clone(), true) {
                for d in deviations(&b2).iter().filter(|d| d.kind == "unterminatedName") {
                    let p = open_dump(d.image.clone(), false);
                    let s = open_dump(d.image.clone(), true);
                    *hist.entry("unterminatedName(nul inside)".to_string()).or_insert(0) += 1;
                    let path = format!("{}/d{}.cfb", outdir, k);
                    k += 1;
                    std::fs::write(&path, &d.image).unwrap();
                    list.push_str(&path);
                    list.push('\n');
                    if p != p2 {
                        println!("ORACLE deviation unterminatedName (name with U+0000 inside) on {} (kept as {}): permissive open gave {} instead of the undamaged content", f, path, &p[..p.len().min(120)]);
                    }
                    if s != "err invalidData" {
                        println!("ORACLE deviation unterminatedName (name with U+0000 inside) on {} (kept as {}): strict open gave {} instead of err invalidData", f, path, &s[..s.len().min(120)]);
                    }
                }
            }
        }
    }
    std::fs::write(list_path, list).unwrap();
    for (k, v) in hist.iter().filter(|(k, _)| !k.starts_with("combo")) {
        println!("HIST dev:{} {}", k, v);
    }
    println!("HIST dev:combos {}", hist.iter().filter(|(k, _)| k.starts_with("combo")).map(|(_, v)| *v).sum::<u64>());
}


/// `b` with the last character of the first suitable entry's name replaced by U+0000
fn nul_name_variant(b: &[u8]) -> Option<Vec<u8>> {
    let l = crate::mutate::layout(b);
    let per = l.s / 128;
    for i in 1..l.dir_sectors.len() * per {
        let o = (l.dir_sectors[i / per] + 1) * l.s + (i % per) * 128;
        if o + 128 > b.len() {
            continue;
        }
        let t = b[o + 66];
        let name_len = u16::from_le_bytes([b[o + 64], b[o + 65]]) as usize;
        if (t == 1 || t == 2) && name_len >= 6 && name_len < 64 {
            let mut v = b.to_vec();
            v[o + name_len - 4] = 0;
            v[o + name_len - 3] = 0;
            return Some(v);
        }
    }
    None
}
