//! C04: synthesise spec-valid compound files in layouts the library's own writer never produces.
//!
//! A logical tree (storages with CLSID/state bits/times, streams with contents on both sides of the
//! cutoff) is laid out with: sectors of every kind in a random permutation (FAT, DIFAT, MiniFAT,
//! directory, mini stream and stream sectors anywhere, chains fragmented, free sectors in between,
//! optionally the last sector linked to sector 0 and a sector count that is an exact multiple of the
//! FAT entries per sector), directory entries in random slots with unallocated gaps, balanced
//! red-black sibling trees, mini sectors permuted with free gaps, version 3 or 4.
//! The writer shares no code with the library.
use crate::api::key_of;
use crate::util::*;
use std::collections::BTreeMap;

pub const END: u32 = 0xFFFFFFFE;
pub const FREE: u32 = 0xFFFFFFFF;
pub const FATSECT: u32 = 0xFFFFFFFD;
pub const DIFSECT: u32 = 0xFFFFFFFC;
pub const NOSTREAM: u32 = 0xFFFFFFFF;

#[derive(Clone, Debug)]
pub enum Node {
    Storage { name: String, clsid: [u8; 16], bits: u32, ctime: u64, mtime: u64, kids: Vec<Node> },
    Stream { name: String, bits: u32, data: Vec<u8> },
}

impl Node {
    pub fn name(&self) -> &str {
        match self {
            Node::Storage { name, .. } | Node::Stream { name, .. } => name,
        }
    }
}

/// the ops that build the same logical content through the API (for the reference model)
pub fn ops_of(root: &Node, out: &mut Vec<String>) {
    fn go(n: &Node, parent: &str, out: &mut Vec<String>, is_root: bool) {
        use crate::names::enc;
        match n {
            Node::Storage { name, clsid, bits, ctime, mtime, kids } => {
                let path = if is_root { "/".to_string() } else { format!("{}/{}", if parent == "/" { "" } else { parent }, name) };
                if !is_root {
                    out.push(format!("mkdir {}", enc(&path)));
                }
                out.push(format!("setclsid {} {}", enc(&path), hex(clsid)));
                out.push(format!("setbits {} {}", enc(&path), bits));
                out.push(format!("settsraw {} {} {}", enc(&path), ctime, mtime));
                for k in kids {
                    go(k, &path, out, false);
                }
            }
            Node::Stream { name, bits, data } => {
                let path = format!("{}/{}", if parent == "/" { "" } else { parent }, name);
                out.push(format!("put {} {}", enc(&path), hex(data)));
                out.push(format!("setbits {} {}", enc(&path), bits));
            }
        }
    }
    go(root, "/", out, true);
}

struct Ent {
    name: String,
    typ: u8,
    red: bool,
    left: u32,
    right: u32,
    child: u32,
    clsid: [u8; 16],
    bits: u32,
    ctime: u64,
    mtime: u64,
    start: u32,
    len: u64,
}

pub struct LayoutCfg {
    pub v4: bool,
    /// make the sector count an exact multiple of the FAT entries per sector and link the last sector to sector 0
    pub wrap_to_zero: bool,
    pub free_gaps: bool,
    pub extra_dir_sector: bool,
    /// one FAT sector more than the file needs (all its cells FREE); with room, the mini stream's chain is padded
    /// (its size counts free mini sectors at the end) so that the sector count is an exact multiple of the FAT
    /// entries per sector with no free sector: the first allocation afterwards appends a FAT sector whose own
    /// cell lies in the spare one
    pub spare_fat: bool,
    /// at least this many FAT sectors (the additional ones all FREE): 236 in a version-3 file fills the 109 header
    /// slots and the first DIFAT sector exactly, so that the next FAT sector the library appends needs a second
    /// DIFAT sector
    pub min_fat: usize,
}

fn le32(b: &mut [u8], off: usize, v: u32) {
    b[off..off + 4].copy_from_slice(&v.to_le_bytes());
}

/// Lays the tree out; returns the image.
pub fn build(root: &Node, cfg: &LayoutCfg, rng: &mut Rng) -> Vec<u8> {
    let s: usize = if cfg.v4 { 4096 } else { 512 };
    let per_dir = s / 128;
    let epsec = s / 4;
    // ---- directory slots
    let mut flat: Vec<(&Node, usize)> = Vec::new(); // (node, parent index in flat; root = 0)
    fn collect<'a>(n: &'a Node, parent: usize, flat: &mut Vec<(&'a Node, usize)>) {
        let me = flat.len();
        flat.push((n, parent));
        if let Node::Storage { kids, .. } = n {
            for k in kids {
                collect(k, me, flat);
            }
        }
    }
    collect(root, 0, &mut flat);
    let n_ent = flat.len();
    let gaps = if cfg.free_gaps { rng.below(n_ent as u64 / 2 + 3) as usize } else { 0 };
    let mut n_slots = n_ent + gaps;
    n_slots = (n_slots + per_dir - 1) / per_dir * per_dir + if cfg.extra_dir_sector { per_dir } else { 0 };
    let mut slot_pool: Vec<usize> = (1..n_slots).collect();
    for i in (1..slot_pool.len()).rev() {
        let j = rng.below(i as u64 + 1) as usize;
        slot_pool.swap(i, j);
    }
    let mut slot_of = vec![0usize; n_ent];
    for i in 1..n_ent {
        slot_of[i] = slot_pool[i - 1];
    }
    // ---- stream placement
    let mut mini_streams: Vec<(usize, usize)> = Vec::new(); // (flat index, mini sectors)
    let mut big_streams: Vec<(usize, usize)> = Vec::new();
    for (i, (n, _)) in flat.iter().enumerate() {
        if let Node::Stream { data, .. } = n {
            if data.is_empty() {
            } else if data.len() < 4096 {
                mini_streams.push((i, (data.len() + 63) / 64));
            } else {
                big_streams.push((i, (data.len() + s - 1) / s));
            }
        }
    }
    let n_mini_used: usize = mini_streams.iter().map(|x| x.1).sum();
    let mini_gaps = if cfg.free_gaps && n_mini_used > 0 { rng.below(n_mini_used as u64 / 3 + 2) as usize } else { 0 };
    let n_mini = n_mini_used + mini_gaps;
    let mut mini_ids: Vec<u32> = (0..n_mini as u32).collect();
    for i in (1..mini_ids.len()).rev() {
        let j = rng.below(i as u64 + 1) as usize;
        mini_ids.swap(i, j);
    }
    let mut minifat = vec![FREE; n_mini];
    let mut mini_chain_of: BTreeMap<usize, Vec<u32>> = BTreeMap::new();
    let mut cursor = 0;
    for (i, k) in &mini_streams {
        let ids: Vec<u32> = mini_ids[cursor..cursor + k].to_vec();
        cursor += k;
        for w in 0..ids.len() {
            minifat[ids[w] as usize] = if w + 1 < ids.len() { ids[w + 1] } else { END };
        }
        mini_chain_of.insert(*i, ids);
    }
    // the mini stream must reach the highest used mini sector
    let max_used = mini_chain_of.values().flatten().max().map(|m| *m as usize + 1).unwrap_or(0);
    // other writers leave the mini stream's size alone when its last mini sectors become free: the size in the root
    // entry may count free mini sectors at the end (beyond the last MiniFAT entry in use, even beyond the MiniFAT)
    let mini_stream_len = if cfg.free_gaps && max_used > 0 && rng.below(3) == 0 {
        (n_mini.max(max_used) + rng.below(3) as usize) * 64
    } else {
        max_used * 64
    };
    let mut mini_stream_len = mini_stream_len;
    let mut n_root_sectors = (mini_stream_len + s - 1) / s;
    let n_minifat_sectors = (n_mini * 4 + s - 1) / s;
    let n_dir_sectors = n_slots / per_dir;
    // ---- sector budget
    let n_big: usize = big_streams.iter().map(|x| x.1).sum();
    let spare = cfg.spare_fat && !cfg.wrap_to_zero;
    let sector_gaps = if cfg.free_gaps && !spare { rng.below(6) as usize } else { 0 };
    let mut body = n_dir_sectors + n_minifat_sectors + n_root_sectors + n_big + sector_gaps;
    // number of FAT (and DIFAT) sectors: fixpoint
    let mut n_fat = 1;
    let mut n_difat;
    let mut total;
    loop {
        n_difat = if n_fat > 109 { (n_fat - 109 + (epsec - 1) - 1) / (epsec - 1) } else { 0 };
        total = body + n_fat + n_difat;
        if cfg.wrap_to_zero {
            total = (total + epsec - 1) / epsec * epsec;
        }
        let need = (total + epsec - 1) / epsec;
        if need <= n_fat {
            break;
        }
        n_fat = need;
    }
    if cfg.min_fat > n_fat && !cfg.wrap_to_zero {
        n_fat = cfg.min_fat;
        n_difat = if n_fat > 109 { (n_fat - 109 + (epsec - 1) - 1) / (epsec - 1) } else { 0 };
        total = body + n_fat + n_difat;
    }
    if spare && n_fat < 100 {
        // the spare FAT sector is a sector of the file too
        let need_now = (total + 1 + epsec - 1) / epsec;
        if need_now <= n_fat {
            n_fat += 1;
            total += 1;
            let pad = (epsec - total % epsec) % epsec;
            if max_used > 0 && pad <= 90 {
                n_root_sectors += pad;
                mini_stream_len += pad * s;
                body += pad;
                total += pad;
            }
        }
    }
    // ---- assign sector ids
    let mut ids: Vec<u32> = (0..total as u32).collect();
    for i in (1..ids.len()).rev() {
        let j = rng.below(i as u64 + 1) as usize;
        ids.swap(i, j);
    }
    let mut take = |k: usize| -> Vec<u32> {
        let v: Vec<u32> = ids[..k].to_vec();
        ids.drain(..k);
        v
    };
    let mut fat_secs = take(n_fat);
    let mut difat_secs = take(n_difat);
    let mut dir_chain = take(n_dir_sectors);
    let mut minifat_chain = take(n_minifat_sectors);
    let mut root_chain = take(n_root_sectors);
    let mut big_chain_of: BTreeMap<usize, Vec<u32>> = BTreeMap::new();
    for (i, k) in &big_streams {
        big_chain_of.insert(*i, take(*k));
    }
    if cfg.wrap_to_zero {
        // make some chain run: ... -> last sector -> sector 0 -> ...
        let last = total as u32 - 1;
        let mut all: Vec<&mut Vec<u32>> = vec![&mut dir_chain, &mut minifat_chain, &mut root_chain];
        all.extend(big_chain_of.values_mut());
        // where are `last` and 0 now?  swap ids so that they sit next to each other in a chain of length >= 2
        let cand: Vec<usize> = all.iter().enumerate().filter(|(_, c)| c.len() >= 2).map(|(i, _)| i).collect();
        if !cand.is_empty() {
            let ci = cand[rng.below(cand.len() as u64) as usize];
            let pos = rng.below(all[ci].len() as u64 - 1) as usize;
            let (a, b) = (all[ci][pos], all[ci][pos + 1]);
            // global swap a <-> last, b <-> 0
            let swap = |x: u32, p: u32, q: u32| if x == p { q } else if x == q { p } else { x };
            let fix = |v: &mut Vec<u32>, p: u32, q: u32| {
                for x in v.iter_mut() {
                    *x = swap(*x, p, q);
                }
            };
            drop(all);
            for (p, q) in [(a, last), (b, 0u32)] {
                // after the first swap `b` may have moved
                let (p, q) = (p, q);
                fix(&mut fat_secs, p, q);
                fix(&mut difat_secs, p, q);
                fix(&mut dir_chain, p, q);
                fix(&mut minifat_chain, p, q);
                fix(&mut root_chain, p, q);
                for c in big_chain_of.values_mut() {
                    fix(c, p, q);
                }
            }
            // if the second swap disturbed the first (b == last or a == 0) the adjacency may be lost; that is fine
        }
    }
    // ---- FAT
    let mut fat = vec![FREE; n_fat * epsec];
    let link = |fat: &mut Vec<u32>, chain: &Vec<u32>| {
        for w in 0..chain.len() {
            fat[chain[w] as usize] = if w + 1 < chain.len() { chain[w + 1] } else { END };
        }
    };
    link(&mut fat, &dir_chain);
    link(&mut fat, &minifat_chain);
    link(&mut fat, &root_chain);
    for c in big_chain_of.values() {
        link(&mut fat, c);
    }
    for f in &fat_secs {
        fat[*f as usize] = FATSECT;
    }
    for d in &difat_secs {
        fat[*d as usize] = DIFSECT;
    }
    // ---- sibling trees (balanced, red-black coloured), entries
    let mut ents: Vec<Option<Ent>> = (0..n_slots).map(|_| None).collect();
    let mut kids_of: BTreeMap<usize, Vec<usize>> = BTreeMap::new();
    for (i, (_, parent)) in flat.iter().enumerate().skip(1) {
        kids_of.entry(*parent).or_default().push(i);
    }
    for (i, (n, _)) in flat.iter().enumerate() {
        let e = match n {
            Node::Storage { name, clsid, bits, ctime, mtime, .. } => Ent {
                name: if i == 0 { "Root Entry".into() } else { name.clone() },
                typ: if i == 0 { 5 } else { 1 },
                red: false, left: NOSTREAM, right: NOSTREAM, child: NOSTREAM,
                clsid: *clsid, bits: *bits, ctime: *ctime, mtime: *mtime,
                start: if i == 0 { root_chain.first().copied().unwrap_or(END) } else { 0 },
                len: if i == 0 { mini_stream_len as u64 } else { 0 },
            },
            Node::Stream { name, bits, data } => Ent {
                name: name.clone(), typ: 2, red: false, left: NOSTREAM, right: NOSTREAM, child: NOSTREAM,
                clsid: [0; 16], bits: *bits, ctime: 0, mtime: 0,
                start: if data.is_empty() { END } else if data.len() < 4096 { mini_chain_of[&i][0] } else { big_chain_of[&i][0] },
                len: data.len() as u64,
            },
        };
        ents[slot_of[i]] = Some(e);
    }
    for (parent, kids) in &kids_of {
        let mut sorted = kids.clone();
        sorted.sort_by(|a, b| key_of(flat[*a].0.name()).cmp(&key_of(flat[*b].0.name())));
        // depth of a perfectly balanced tree over n nodes; nodes on the deepest level are red
        let n = sorted.len();
        let mut maxdepth = 0;
        while (1usize << (maxdepth + 1)) - 1 < n {
            maxdepth += 1;
        }
        // a valid red-black colouring by levels: the root level is black; if the deepest level is
        // incomplete it must be red (and the one above it black); any other levels may be red as
        // long as no two adjacent levels are
        let complete = n + 1 == (1usize << (maxdepth + 1));
        let mut red_levels = vec![false; maxdepth + 1];
        let top_free = if complete { maxdepth } else { maxdepth.saturating_sub(2) };
        if !complete && maxdepth > 0 {
            red_levels[maxdepth] = true;
        }
        let mut lvl = 1;
        while lvl <= top_free && maxdepth > 0 {
            if rng.chance(2, 3) && !red_levels[lvl - 1] && !(lvl + 1 <= maxdepth && red_levels[lvl + 1]) {
                red_levels[lvl] = true;
                lvl += 2;
            } else {
                lvl += 1;
            }
        }
        fn build(sorted: &[usize], depth: usize, red_levels: &[bool], slot_of: &[usize], ents: &mut Vec<Option<Ent>>) -> u32 {
            if sorted.is_empty() {
                return NOSTREAM;
            }
            let mid = sorted.len() / 2;
            let me = slot_of[sorted[mid]];
            let l = build(&sorted[..mid], depth + 1, red_levels, slot_of, ents);
            let r = build(&sorted[mid + 1..], depth + 1, red_levels, slot_of, ents);
            let e = ents[me].as_mut().unwrap();
            e.left = l;
            e.right = r;
            e.red = red_levels[depth];
            me as u32
        }
        let top = build(&sorted, 0, &red_levels, &slot_of, &mut ents);
        ents[slot_of[*parent]].as_mut().unwrap().child = top;
    }
    // ---- write
    let mut img = vec![0u8; (total + 1) * s];
    img[..8].copy_from_slice(&[0xD0, 0xCF, 0x11, 0xE0, 0xA1, 0xB1, 0x1A, 0xE1]);
    img[24..26].copy_from_slice(&0x3Eu16.to_le_bytes());
    img[26..28].copy_from_slice(&(if cfg.v4 { 4u16 } else { 3 }).to_le_bytes());
    img[28..30].copy_from_slice(&0xFFFEu16.to_le_bytes());
    img[30..32].copy_from_slice(&(if cfg.v4 { 12u16 } else { 9 }).to_le_bytes());
    img[32..34].copy_from_slice(&6u16.to_le_bytes());
    le32(&mut img, 40, if cfg.v4 { n_dir_sectors as u32 } else { 0 });
    le32(&mut img, 44, n_fat as u32);
    le32(&mut img, 48, dir_chain[0]);
    // MS-CFB 2.2: the transaction signature number is a sequence number a writer with transaction support
    // increments on every commit (all zeroes only "if file transactions are not implemented"): readers ignore it
    if rng.below(3) == 0 {
        let v = 1 + (rng.next() as u32 % 100_000);
        le32(&mut img, 52, v);
    }
    le32(&mut img, 56, 4096);
    le32(&mut img, 60, minifat_chain.first().copied().unwrap_or(END));
    le32(&mut img, 64, n_minifat_sectors as u32);
    le32(&mut img, 68, difat_secs.first().copied().unwrap_or(END));
    le32(&mut img, 72, n_difat as u32);
    for i in 0..109 {
        le32(&mut img, 76 + 4 * i, fat_secs.get(i).copied().unwrap_or(FREE));
    }
    let off = |id: u32| (id as usize + 1) * s;
    for (k, d) in difat_secs.iter().enumerate() {
        let base = off(*d);
        for j in 0..(epsec - 1) {
            le32(&mut img, base + 4 * j, fat_secs.get(109 + k * (epsec - 1) + j).copied().unwrap_or(FREE));
        }
        le32(&mut img, base + s - 4, difat_secs.get(k + 1).copied().unwrap_or(END));
    }
    for (k, f) in fat_secs.iter().enumerate() {
        for j in 0..epsec {
            le32(&mut img, off(*f) + 4 * j, fat[k * epsec + j]);
        }
    }
    for (k, m) in minifat_chain.iter().enumerate() {
        for j in 0..epsec {
            le32(&mut img, off(*m) + 4 * j, minifat.get(k * epsec + j).copied().unwrap_or(FREE));
        }
    }
    for (slot, e) in ents.iter().enumerate() {
        let base = off(dir_chain[slot / per_dir]) + (slot % per_dir) * 128;
        let b = &mut img[base..base + 128];
        match e {
            None => {
                b[68..72].copy_from_slice(&NOSTREAM.to_le_bytes());
                b[72..76].copy_from_slice(&NOSTREAM.to_le_bytes());
                b[76..80].copy_from_slice(&NOSTREAM.to_le_bytes());
            }
            Some(e) => {
                let u: Vec<u16> = e.name.encode_utf16().collect();
                for (i, x) in u.iter().enumerate() {
                    b[2 * i..2 * i + 2].copy_from_slice(&x.to_le_bytes());
                }
                b[64..66].copy_from_slice(&(((u.len() + 1) * 2) as u16).to_le_bytes());
                b[66] = e.typ;
                b[67] = if e.red { 0 } else { 1 };
                b[68..72].copy_from_slice(&e.left.to_le_bytes());
                b[72..76].copy_from_slice(&e.right.to_le_bytes());
                b[76..80].copy_from_slice(&e.child.to_le_bytes());
                // CLSID on disk: Data1..3 little-endian, Data4 as is
                let c = e.clsid;
                b[80..96].copy_from_slice(&[c[3], c[2], c[1], c[0], c[5], c[4], c[7], c[6], c[8], c[9], c[10], c[11], c[12], c[13], c[14], c[15]]);
                b[96..100].copy_from_slice(&e.bits.to_le_bytes());
                b[100..108].copy_from_slice(&e.ctime.to_le_bytes());
                b[108..116].copy_from_slice(&e.mtime.to_le_bytes());
                b[116..120].copy_from_slice(&e.start.to_le_bytes());
                b[120..128].copy_from_slice(&e.len.to_le_bytes());
            }
        }
    }
    // stream data; unused space filled with a marker so that wrong placement shows
    for (i, (n, _)) in flat.iter().enumerate() {
        if let Node::Stream { data, .. } = n {
            if let Some(chain) = big_chain_of.get(&i) {
                for (k, id) in chain.iter().enumerate() {
                    let chunk = &data[k * s..data.len().min((k + 1) * s)];
                    let base = off(*id);
                    for x in img[base..base + s].iter_mut() {
                        *x = 0xEE;
                    }
                    img[base..base + chunk.len()].copy_from_slice(chunk);
                }
            } else if let Some(chain) = mini_chain_of.get(&i) {
                for (k, m) in chain.iter().enumerate() {
                    let chunk = &data[k * 64..data.len().min((k + 1) * 64)];
                    let m = *m as usize;
                    let base = off(root_chain[m * 64 / s]) + (m * 64) % s;
                    for x in img[base..base + 64].iter_mut() {
                        *x = 0xDD;
                    }
                    img[base..base + chunk.len()].copy_from_slice(chunk);
                }
            }
        }
    }
    // free space as another writer leaves it: in every second layout the free sectors and the free mini sectors
    // still hold the bytes of whatever lived there (MS-CFB does not ask for them to be cleared)
    if (total + n_mini) % 2 == 0 {
        for id in 0..total.min(fat.len()) {
            if fat[id] == FREE {
                let base = off(id as u32);
                for (k, x) in img[base..base + s].iter_mut().enumerate() {
                    *x = 0xC0 | (k as u8 & 0x3F);
                }
            }
        }
        for m in 0..n_mini {
            if minifat[m] == FREE && m * 64 / s < root_chain.len() {
                let base = off(root_chain[m * 64 / s]) + (m * 64) % s;
                for x in img[base..base + 64].iter_mut() {
                    *x = 0xB7;
                }
            }
        }
    }
    img
}

const NAMES: &[&str] = &["a", "B", "c", "Zeta", "alpha", "ALPHb", "x1", "x10", "x2", "ß", "ǅx", "éa", "Éb", "日本", "𐐀𐐁", "\u{E000}q", "long name with spaces.", "Data", "data2", "~tmp", "0", "00", "Ab", "aC",
    // ASCII characters between 'Z' and 'a' and above 'z': their place relative to letters depends on the direction of case folding
    "a_", "_b", "[x", "^y", "`q", "{z", "_bc", "Mbc", "m]c",
    // the longest legal names: 31 UTF-16 units (length field 64), with and without a surrogate pair, and 30 units
    "abcdefghijklmnopqrstuvwxyz01234", "ABCDEFGHIJKLMNOPQRSTUVWXYZ012\u{1F600}", "abcdefghijklmnopqrstuvwxyz0123"];

/// a random logical tree
pub fn gen_tree(rng: &mut Rng, max_entries: usize, big: bool) -> Node {
    fn storage(rng: &mut Rng, name: &str, depth: usize, budget: &mut usize, big: bool) -> Node {
        let mut kids: Vec<Node> = Vec::new();
        let mut used: Vec<crate::api::Key> = Vec::new();
        let cap = if rng.chance(1, 3) { 22 } else { 9 };
        let n = if *budget == 0 { 0 } else { rng.below((*budget).min(cap) as u64 + 1) as usize };
        for _ in 0..n {
            if *budget == 0 {
                break;
            }
            let nm = *rng.pick(NAMES);
            let k = key_of(nm);
            if used.contains(&k) {
                continue;
            }
            used.push(k);
            *budget -= 1;
            if depth < 3 && rng.chance(1, 4) {
                kids.push(storage(rng, nm, depth + 1, budget, big));
            } else {
                let sizes: &[usize] = if big { &[0, 1, 64, 65, 700, 4095, 4096, 4097, 9000, 70000] } else { &[0, 1, 63, 64, 65, 130, 700, 4095, 4096, 4097, 5000, 9000] };
                let len = *rng.pick(sizes);
                kids.push(Node::Stream { name: nm.to_string(), bits: if rng.chance(1, 3) { rng.next() as u32 } else { 0 }, data: pattern(len, rng.next() % 1000) });
            }
        }
        let mut clsid = [0u8; 16];
        if rng.chance(1, 2) {
            for b in clsid.iter_mut() {
                *b = rng.next() as u8;
            }
        }
        // a third unset, a sixth before 1970 (mostly off the whole second: 100 ns ticks), the rest after
        let t = |rng: &mut Rng| if rng.chance(1, 3) { 0 } else if rng.chance(1, 4) { 1 + rng.below(116444736000000000 - 1) } else { 116444736000000000 + rng.below(1u64 << 55) };
        Node::Storage { name: name.to_string(), clsid, bits: if rng.chance(1, 3) { rng.next() as u32 } else { 0 }, ctime: t(rng), mtime: t(rng), kids }
    }
    if rng.chance(1, 4) {
        // a wide root: 8-20 small streams in one sibling tree (depth 3-4, several red levels possible)
        let n = 8 + rng.below(13) as usize;
        let mut names: Vec<&str> = NAMES.to_vec();
        for i in (1..names.len()).rev() {
            let j = rng.below(i as u64 + 1) as usize;
            names.swap(i, j);
        }
        let mut used: Vec<crate::api::Key> = Vec::new();
        let mut kids = Vec::new();
        for nm in names {
            if kids.len() >= n || used.contains(&key_of(nm)) {
                continue;
            }
            used.push(key_of(nm));
            kids.push(Node::Stream { name: nm.to_string(), bits: 0, data: pattern(*rng.pick(&[0usize, 5, 64, 200, 4096]), rng.next() % 1000) });
        }
        return Node::Storage { name: "Root Entry".into(), clsid: [0; 16], bits: 0, ctime: 0, mtime: 0, kids };
    }
    let mut budget = 1 + rng.below(max_entries as u64) as usize;
    storage(rng, "Root Entry", 0, &mut budget, big)
}
