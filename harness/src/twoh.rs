//! Two handles on ONE stream (C08, C10): what a handle whose cached length is stale *means* is not defined by
//! any property, but two things are, whatever the handles believe:
//!   C08  when a successful `set_len` makes the stream longer (judged by the directory entry's length before and
//!        after, not by a handle's idea of it), every byte between the old and the new length reads as zero
//!        through a fresh handle, and the bytes below the old length are unchanged;
//!   C10  a call that is refused (InvalidInput / NotFound) changes nothing: the backing bytes are the same after
//!        it, and the same call made again at once is refused in the same way (had the first call not been made,
//!        the second would have been the first).
//! A history: a stream of non-zero data with handles A and B on it and a bystander stream; calls through either
//! handle: set_len to lengths around the mini-sector, sector and cutoff boundaries, seek + write without a flush
//! (pending data), flush; now and then the bystander is removed (its space is what growth reuses).
use crate::util::*;
use cfb::{CompoundFile, OpenOptions, Version};
use std::io::{Read, Seek, SeekFrom, Write};

const LENS: &[u64] = &[0, 1, 63, 64, 65, 70, 100, 128, 200, 500, 512, 1000, 4031, 4095, 4096, 4097, 5000, 8192, 9000];

fn nz(len: usize, salt: u64) -> Vec<u8> {
    pattern(len, salt).into_iter().map(|b| b | 1).collect()
}

fn read_all(comp: &mut CompoundFile<SharedFile>, path: &str) -> Option<Vec<u8>> {
    let mut v = Vec::new();
    comp.open_stream(path).ok()?.read_to_end(&mut v).ok()?;
    Some(v)
}

pub fn campaign(seed: u64, count: u64) -> Vec<String> {
    let mut rng = Rng::new(seed);
    let mut violations: Vec<String> = Vec::new();
    let (mut calls, mut grows, mut refusals) = (0u64, 0u64, 0u64);
    for case in 0..count {
        let v4 = rng.chance(1, 2);
        let small = rng.chance(1, 2);
        let n0 = *rng.pick(&[70usize, 100, 128, 512, 4096, 5000, 8192, 9000]);
        let shared = SharedFile::new(Vec::new());
        let comp = CompoundFile::create_with_version(if v4 { Version::V4 } else { Version::V3 }, shared.clone()).unwrap();
        let file = comp.into_inner();
        let mut comp = if small { OpenOptions::new().max_buffer_size(1024).open_with(file).unwrap() } else { CompoundFile::open(file).unwrap() };
        comp.create_stream("/t").unwrap().write_all(&nz(*rng.pick(&[100usize, 3000, 6000]), 9)).unwrap();
        comp.create_stream("/s").unwrap().write_all(&nz(n0, 3)).unwrap();
        let mut hs = vec![comp.open_stream("/s").unwrap(), comp.open_stream("/s").unwrap()];
        let mut dirty = [false, false];
        let mut log: Vec<String> = vec![format!("create v{} maxbuf {} /t /s({} bytes) handles A,B on /s", if v4 { 4 } else { 3 }, if small { "1024" } else { "default" }, n0)];
        let steps = 3 + rng.below(10);
        'steps: for step in 0..steps {
            let h = rng.below(2) as usize;
            let name = ["A", "B"][h];
            let before_len = comp.entry("/s").map(|e| e.len()).unwrap_or(0);
            let before = read_all(&mut comp, "/s").unwrap_or_default();
            let image_before = shared.snapshot();
            let choice = rng.below(10);
            let (desc, r): (String, std::io::Result<()>) = match choice {
                0..=4 => {
                    let n = if rng.chance(1, 3) { (before_len as i64 + *rng.pick(&[-70i64, -58, -1, 1, 58, 70, 130])).max(0) as u64 } else { *rng.pick(LENS) };
                    (format!("{}.set_len({})", name, n), hs[h].set_len(n))
                }
                5 | 6 => {
                    let p = if rng.chance(1, 2) { before_len.saturating_sub(rng.below(60)) } else { rng.below(before_len + 1) };
                    let n = *rng.pick(&[4usize, 60, 300]);
                    let d = nz(n, step + 20);
                    (format!("{}.seek({}) + write({} bytes), no flush", name, p, n), hs[h].seek(SeekFrom::Start(p)).and_then(|_| hs[h].write_all(&d)))
                }
                7 | 8 => (format!("{}.flush()", name), hs[h].flush()),
                _ => ("remove_stream(/t)".to_string(), comp.remove_stream("/t")),
            };
            calls += 1;
            log.push(format!("{} -> {}", desc, match &r { Ok(()) => "ok".to_string(), Err(e) => format!("err {}", err_kind(e)) }));
            let after_len = comp.entry("/s").map(|e| e.len()).unwrap_or(0);
            match &r {
                Ok(()) => {
                    let was_dirty = dirty[h];
                    // (a set_len to the length the handle believes the stream has is a no-op that flushes nothing)
                    match choice { 5 | 6 => dirty[h] = true, 7 | 8 => dirty[h] = false, _ => {} }
                    if choice <= 4 && !was_dirty && after_len > before_len {
                        grows += 1;
                        let now = read_all(&mut comp, "/s").unwrap_or_default();
                        let gained = now.get(before_len as usize..).unwrap_or(&[]);
                        if now.len() as u64 != after_len || gained.iter().any(|b| *b != 0) {
                            let at = gained.iter().position(|b| *b != 0).map(|i| i as u64 + before_len);
                            violations.push(format!("C08 case {} (seed {}): {} made the stream grow from {} to {} bytes; first non-zero byte of the gained range at {:?} [{}]", case, seed, desc, before_len, after_len, at, log.join("; ")));
                            break 'steps;
                        }
                        if now[..before_len as usize] != before[..before_len as usize] {
                            violations.push(format!("C08 case {} (seed {}): {} changed bytes below the old length {} [{}]", case, seed, desc, before_len, log.join("; ")));
                            break 'steps;
                        }
                    }
                }
                Err(e) if matches!(e.kind(), std::io::ErrorKind::InvalidInput | std::io::ErrorKind::NotFound) => {
                    refusals += 1;
                    let k1 = err_kind(e);
                    if shared.snapshot() != image_before {
                        violations.push(format!("C10 case {} (seed {}): {} was refused ({}) but changed the file's bytes [{}]", case, seed, desc, k1, log.join("; ")));
                        break 'steps;
                    }
                    // the same call again, at once (a seek+write is repeated as the flush the write attempted)
                    let r2: std::io::Result<()> = match choice {
                        7 | 8 => hs[h].flush(),
                        9 => comp.remove_stream("/t"),
                        _ => continue,
                    };
                    let k2 = match &r2 { Ok(()) => "ok".to_string(), Err(e) => err_kind(e).to_string() };
                    if k2 != k1 {
                        violations.push(format!("C10 case {} (seed {}): {} was refused ({}); the same call made again at once answered {} [{}]", case, seed, desc, k1, k2, log.join("; ")));
                        break 'steps;
                    }
                }
                Err(_) => {}
            }
        }
        drop(hs);
        if violations.len() >= 3 {
            break;
        }
    }
    println!("STAT calls {}", calls);
    println!("STAT grows_judged {}", grows);
    println!("STAT refusals_judged {}", refusals);
    violations
}
