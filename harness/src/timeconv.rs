//! C17 (value part): FILETIME conversions through hook H2.
//!   ts <secs> <nanos>  -> num <timestamp>
//!   time <timestamp>   -> time <secs> <nanos>
use crate::util::*;
use std::fmt::Write as _;
use std::time::{Duration, SystemTime, UNIX_EPOCH};

const EPOCH: i128 = 116444736000000000;

pub fn mk_time(secs: i64, nanos: u32) -> Option<SystemTime> {
    if secs >= 0 {
        UNIX_EPOCH.checked_add(Duration::new(secs as u64, nanos))
    } else {
        UNIX_EPOCH.checked_sub(Duration::new(secs.unsigned_abs(), 0))?.checked_add(Duration::new(0, nanos))
    }
}

pub fn split_time(t: SystemTime) -> (i64, u32) {
    match t.duration_since(UNIX_EPOCH) {
        Ok(d) => (d.as_secs() as i64, d.subsec_nanos()),
        Err(e) => {
            let d = e.duration();
            if d.subsec_nanos() == 0 {
                ((d.as_secs() as i128).wrapping_neg() as i64, 0)
            } else {
                ((-(d.as_secs() as i128) - 1) as i64, 1_000_000_000 - d.subsec_nanos())
            }
        }
    }
}

pub fn exec(line: &str) -> String {
    let t: Vec<&str> = line.split_whitespace().collect();
    match t.as_slice() {
        ["ts", s, n] => match mk_time(s.parse().unwrap(), n.parse().unwrap()) {
            Some(t) => format!("num {}", cfb::verif::timestamp_from_system_time(t)),
            None => "unrepresentable".into(),
        },
        ["time", v] => {
            let (s, n) = split_time(cfb::verif::system_time_from_timestamp(v.parse().unwrap()));
            format!("time {} {}", s, n)
        }
        _ => "bad-op".into(),
    }
}

pub fn campaign(seed: u64, count: u64, ops_path: &str, impl_path: &str) -> (std::collections::BTreeMap<String, u64>, Vec<String>) {
    let mut rng = Rng::new(seed);
    let mut ops = String::new();
    let mut imp = String::new();
    let mut hist = std::collections::BTreeMap::new();
    let mut violations = Vec::new();
    let sec_anchors: &[i64] = &[0, 1, -1, -11644473600, -11644473601, -11644473599, 1833029933770, 1833029933771, 1833029933769,
        i64::MAX, i64::MIN, i64::MIN + 1, i64::MAX - 1, 1489862796, -14182980, 253402300800];
    let nano_anchors: &[u32] = &[0, 1, 99, 100, 101, 199, 200, 999_999_999, 999_999_900, 999_999_899, 500_000_000, 955_161_500, 955_161_599, 955_161_600];
    let v_anchors: &[u64] = &[0, 1, 2, 116444736000000000, 116444735999999999, 116444736000000001, u64::MAX, u64::MAX - 1, 1 << 63, 131343363960000000, 116302906200000000, 10_000_000, 9_999_999];
    for _ in 0..count {
        let line = if rng.chance(3, 5) {
            let s = match rng.below(4) {
                0 => *rng.pick(sec_anchors),
                1 => (*rng.pick(sec_anchors)).wrapping_add(rng.below(7) as i64 - 3),
                2 => rng.below(4_000_000_000_000) as i64 - 2_000_000_000_000,
                _ => rng.next() as i64,
            };
            let n = if rng.chance(1, 2) { *rng.pick(nano_anchors) } else { rng.below(1_000_000_000) as u32 };
            format!("ts {} {}", s, n)
        } else {
            let v = match rng.below(3) {
                0 => *rng.pick(v_anchors),
                1 => (*rng.pick(v_anchors)).wrapping_add(rng.below(21)).wrapping_sub(10),
                _ => rng.next(),
            };
            format!("time {}", v)
        };
        let out = catch(|| exec(&line)).unwrap_or_else(|_| "panic".into());
        let t: Vec<&str> = line.split_whitespace().collect();
        match t.as_slice() {
            ["ts", s, n] if out != "unrepresentable" => {
                let (s, n): (i128, i128) = (s.parse().unwrap(), n.parse().unwrap());
                let total = s * 1_000_000_000 + n;
                let ticks = if total >= 0 { total / 100 } else { -((-total) / 100) };
                let expect = (EPOCH + ticks).clamp(0, u64::MAX as i128);
                let class = if expect == 0 { "sat-low" } else if expect == u64::MAX as i128 { "sat-high" } else if total < 0 { "before-1970" } else { "after-1970" };
                *hist.entry(format!("ts:{}", class)).or_insert(0u64) += 1;
                if out != format!("num {}", expect) {
                    violations.push(format!("{} gave {}, expected num {} (100 ns ticks toward the Unix epoch, saturating)", line, out, expect));
                }
            }
            ["time", v] => {
                *hist.entry("time".to_string()).or_insert(0u64) += 1;
                // exact return: converting back must give the same timestamp
                if let Some(rest) = out.strip_prefix("time ") {
                    let p: Vec<&str> = rest.split(' ').collect();
                    let back = mk_time(p[0].parse().unwrap(), p[1].parse().unwrap()).map(cfb::verif::timestamp_from_system_time);
                    if back != Some(v.parse().unwrap()) {
                        violations.push(format!("{} gave {} which converts back to {:?}", line, out, back));
                    }
                } else {
                    violations.push(format!("{} gave {}", line, out));
                }
            }
            _ => {
                *hist.entry("ts:unrepresentable-input".to_string()).or_insert(0u64) += 1;
            }
        }
        writeln!(ops, "{}", line).unwrap();
        writeln!(imp, "{}", out).unwrap();
    }
    std::fs::write(ops_path, ops).unwrap();
    std::fs::write(impl_path, imp).unwrap();
    (hist, violations)
}

pub fn replay(ops_path: &str, impl_path: &str) {
    let text = std::fs::read_to_string(ops_path).unwrap();
    let mut imp = String::new();
    for line in text.lines() {
        writeln!(imp, "{}", catch(|| exec(line)).unwrap_or_else(|_| "panic".into())).unwrap();
    }
    std::fs::write(impl_path, imp).unwrap();
}
