//! C11: mutate files that permissive `open` accepted although they are damaged; nothing may panic or hang.
//!
//! Bases are valid images (library-made snapshots and synthesised layouts).  Each case applies 1-3
//! field-level corruptions (mutate.rs) and/or targeted ones (sizes across the cutoff, start sectors
//! elsewhere, a mini stream longer or shorter than the MiniFAT, chain cells cut, looped or crossed),
//! keeps the case only if permissive open accepts it, and runs a short mutating history in a worker
//! thread under a watchdog.  Histories are in the `api` op language, so a finding replays with
//! `harness damage --replay <image> <history>`.
use crate::api::Real;
use crate::backend::{Backend, ImageSource};
use crate::mutate::{corrupt, layout};
use crate::names::enc;
use crate::util::*;
use cfb::CompoundFile;
use std::sync::{mpsc, Arc, Mutex};
use std::time::Duration;

const SIZES: &[usize] = &[0, 1, 63, 64, 65, 500, 4031, 4095, 4096, 4097, 5000, 9000];

fn rd32(b: &[u8], off: usize) -> u32 {
    if off + 4 <= b.len() { u32::from_le_bytes([b[off], b[off + 1], b[off + 2], b[off + 3]]) } else { 0 }
}

fn wr32(b: &mut [u8], off: usize, v: u32) {
    if off + 4 <= b.len() {
        b[off..off + 4].copy_from_slice(&v.to_le_bytes());
    }
}

/// corruptions aimed at what `open` does not look at: stream chains, sizes, the mini stream
fn targeted(rng: &mut Rng, b: &mut Vec<u8>) -> &'static str {
    let l = layout(b);
    let s = l.s;
    let per = s / 128;
    let n_ent = l.dir_sectors.len() * per;
    let ent_off = |i: usize| (l.dir_sectors[i / per] + 1) * s + (i % per) * 128;
    if n_ent == 0 {
        return "none";
    }
    let streams: Vec<usize> = (1..n_ent).filter(|i| b.get(ent_off(*i) + 66) == Some(&2)).collect();
    let fat_off = |id: usize| l.fat_sectors.get(id / (s / 4)).map(|fs| (fs + 1) * s + 4 * (id % (s / 4)));
    match rng.below(15) {
        0 => {
            // the mini stream's length
            let cur = rd32(b, ent_off(0) + 120);
            let v = match rng.below(5) { 0 => cur.wrapping_add(64), 1 => cur.saturating_sub(64), 2 => cur.wrapping_add(64 * 8), 3 => 0, _ => cur.wrapping_mul(2).wrapping_add(64) };
            wr32(b, ent_off(0) + 120, v);
            "root-len"
        }
        1 => {
            wr32(b, ent_off(0) + 116, if rng.chance(1, 2) { 0xFFFFFFFE } else { rng.below(l.nsec as u64 + 1) as u32 });
            "root-start"
        }
        2 | 3 if !streams.is_empty() => {
            let i = *rng.pick(&streams);
            let v = *rng.pick(&[0u32, 1, 63, 64, 65, 4095, 4096, 4097, 9000, 70000, 0x7FFFFFFF]);
            wr32(b, ent_off(i) + 120, v);
            if rng.chance(1, 3) {
                // the upper half of the 64-bit length (ignored in version 3 files, taken as it is in version 4):
                // lengths next to u64::MAX and 2^63, where position + count no longer fits
                wr32(b, ent_off(i) + 124, *rng.pick(&[0xFFFFFFFFu32, 0x80000000, 0x7FFFFFFF, 1]));
                if rng.chance(1, 2) {
                    wr32(b, ent_off(i) + 120, *rng.pick(&[0xFFFFFFFFu32, 0xFFFFFFFE, 0xFFFFF000, 0]));
                }
                return "stream-len-64";
            }
            "stream-len"
        }
        4 | 5 if !streams.is_empty() => {
            let i = *rng.pick(&streams);
            let v = match rng.below(4) { 0 => 0xFFFFFFFE, 1 => rng.below(l.nsec as u64 + 2) as u32, 2 => rng.below(40) as u32, _ => 0xFFFFFFFF };
            wr32(b, ent_off(i) + 116, v);
            "stream-start"
        }
        6 | 7 => {
            // a FAT cell of some sector: cut, self-loop, two-cycle, free
            let id = rng.below(l.nsec.max(1) as u64) as usize;
            if let Some(off) = fat_off(id) {
                let v = match rng.below(5) { 0 => 0xFFFFFFFE, 1 => id as u32, 2 => 0xFFFFFFFF, 3 => rng.below(l.nsec as u64) as u32, _ => (id as u32).saturating_sub(1) };
                wr32(b, off, v);
            }
            "fat-cell"
        }
        8 => {
            // a MiniFAT cell
            if let Some(ms) = l.minifat_sectors.first() {
                let k = rng.below((s / 4) as u64).min(40) as usize;
                let v = match rng.below(5) { 0 => 0xFFFFFFFE, 1 => k as u32, 2 => 0xFFFFFFFF, 3 => rng.below(64) as u32, _ => (k as u32).saturating_sub(1) };
                wr32(b, (ms + 1) * s + 4 * k, v);
            }
            "minifat-cell"
        }
        9 => {
            // a character that names may not contain, as the last unit of some entry's name (length
            // and, mostly, the order among its siblings stay as they are)
            let i = 1 + rng.below((n_ent - 1).max(1) as u64) as usize;
            let off = ent_off(i);
            let units = (rd32(b, off + 64) & 0xffff) as usize / 2;
            if i < n_ent && units >= 2 && units <= 32 {
                let c = *rng.pick(&[0x2fu16, 0x5c, 0x3a, 0x21]);
                let at = off + 2 * (units - 2);
                if at + 2 <= b.len() {
                    b[at..at + 2].copy_from_slice(&c.to_le_bytes());
                }
            }
            "name-illegal-unit"
        }
        12 | 13 => {
            // an entry with two parents: a free sibling link of one entry is pointed at another entry of the same
            // sibling tree, on the side on which the names are in order (so that a check of each parent/child pair
            // alone still passes).  `Directory::validate` refuses it (it visits an entry twice); a validation that
            // lets it through leaves a directory in which a removal can close a cycle
            let name_of = |b: &Vec<u8>, i: usize| -> Option<String> {
                let o = ent_off(i);
                let units = (rd32(b, o + 64) & 0xffff) as usize / 2;
                if units == 0 || units > 32 || o + 128 > b.len() { return None; }
                let u: Vec<u16> = (0..units - 1).map(|k| u16::from_le_bytes([b[o + 2 * k], b[o + 2 * k + 1]])).collect();
                String::from_utf16(&u).ok()
            };
            let used: Vec<usize> = (1..n_ent).filter(|i| matches!(b.get(ent_off(*i) + 66), Some(&1) | Some(&2))).collect();
            // sibling trees: members reachable by left/right links from a child link
            let mut trees: Vec<Vec<usize>> = Vec::new();
            for owner in std::iter::once(0usize).chain(used.iter().cloned()) {
                let c = rd32(b, ent_off(owner) + 76) as usize;
                if c >= n_ent { continue; }
                let (mut members, mut stack) = (Vec::new(), vec![c]);
                while let Some(x) = stack.pop() {
                    if x >= n_ent || members.contains(&x) || members.len() > 64 { continue; }
                    members.push(x);
                    stack.push(rd32(b, ent_off(x) + 68) as usize);
                    stack.push(rd32(b, ent_off(x) + 72) as usize);
                }
                if members.len() >= 3 { trees.push(members); }
            }
            if !trees.is_empty() {
                let t = rng.pick(&trees).clone();
                for _ in 0..8 {
                    let (x, y) = (*rng.pick(&t), *rng.pick(&t));
                    if x == y { continue; }
                    let (Some(nx), Some(ny)) = (name_of(b, x), name_of(b, y)) else { continue };
                    let (kx, ky) = (crate::api::key_of(&nx), crate::api::key_of(&ny));
                    let side = if kx < ky { 72 } else { 68 };  // y goes to the right of x when x < y
                    if rd32(b, ent_off(x) + side) == 0xFFFFFFFF {
                        wr32(b, ent_off(x) + side, y as u32);
                        break;
                    }
                }
            }
            "dir-link-shared"
        }
        10 | 11 => {
            // two chains joined: a cell that holds a pointer is redirected to the head of another chain
            // (the MiniFAT chain, the mini stream, the directory chain or another stream's) - heads are
            // pointed at by nothing, so the pointee check of open still passes; shrinking or removing
            // the first stream then cuts or frees the other chain under its owner
            let heads: Vec<u32> = {
                let mut h = vec![rd32(b, 60), rd32(b, 48), rd32(b, ent_off(0) + 116)];
                for i in &streams {
                    if rd32(b, ent_off(*i) + 120) >= 4096 {
                        h.push(rd32(b, ent_off(*i) + 116));
                    }
                }
                h.into_iter().filter(|x| (*x as usize) < l.nsec).collect()
            };
            let cells: Vec<usize> = (0..l.nsec).filter(|id| fat_off(*id).map(|o| (rd32(b, o) as usize) < l.nsec).unwrap_or(false)).collect();
            if !heads.is_empty() && !cells.is_empty() {
                let id = *rng.pick(&cells);
                let t = *rng.pick(&heads);
                if t as usize != id {
                    wr32(b, fat_off(id).unwrap(), t);
                }
            }
            "chain-join"
        }
        _ => {
            // header: MiniFAT start / count
            if rng.chance(1, 2) { wr32(b, 60, if rng.chance(1, 2) { 0xFFFFFFFE } else { rng.below(l.nsec as u64 + 1) as u32 }); } else { wr32(b, 64, rng.below(4) as u32); }
            "header-minifat"
        }
    }
}

/// one mutating call in the `api` op language, chosen from what the file shows
fn gen_line(rng: &mut Rng, streams: &[(String, u64)], storages: &[String], open: &mut Vec<(u32, String)>, step: u64, unrestricted: bool, extreme: bool) -> String {
    // in half of the cases a stream that a handle is bound to is not touched through another handle, an
    // overwrite or a removal; in the other half (`unrestricted`) it is: what such a handle *means* is not this
    // property's subject (C07 speaks of a handle while its stream exists, of handles to different streams),
    // but that no call panics or hangs is
    let keys = |p: &str| -> Vec<crate::api::Key> { p.split('/').filter(|c| !c.is_empty()).map(crate::api::key_of).collect() };
    let held = |p: &str, open: &Vec<(u32, String)>| {
        // names are case-insensitive: compare by CFB key, component-wise; `p` holds a handle's stream
        // if it is that stream or one of the storages above it
        let kp = keys(p);
        !unrestricted && open.iter().any(|(_, hp)| {
            let kh = keys(hp);
            kh.len() >= kp.len() && kh[..kp.len()] == kp[..]
        })
    };
    // (the last three: 31 characters or fewer, but 32 UTF-16 units - must be refused, not written; 31 units with
    // surrogate pairs - the longest name there is; a name of astral characters only)
    let long_astral: String = "abcdefghijklmnopqrstuvwxyzabcd\u{1F600}".to_string();
    let sixteen: String = "\u{1F600}".repeat(16);
    let fifteen: String = format!("{}x", "\u{10400}".repeat(15));
    let names: [&str; 8] = ["n1", "n2", "a", "Zeta", "x10", &long_astral, &sixteen, &fifteen];
    let parent = if !storages.is_empty() && rng.chance(1, 3) { rng.pick(storages).clone() } else { String::new() };
    let w = rng.below(100);
    if !open.is_empty() && w < 45 {
        let id = rng.pick(open).0;
        if extreme && rng.chance(1, 5) {
            // arguments at the end of the u64 range: lengths whose sector count does not fit (only values within one
            // sector of u64::MAX: anything the library would really try to allocate exhausts the harness's memory),
            // and the position at the very end of the stream (whatever length the file claims) before a write
            return match rng.below(3) {
                0 => format!("hsetlen {} {}", id, rng.pick(&[u64::MAX, u64::MAX - 1, u64::MAX - 100])),
                1 => format!("hseekend {} 0", id),
                _ => format!("hseekend {} -{}", id, rng.pick(&[1u64, 64, 4096])),
            };
        }
        return match rng.below(9) {
            0..=2 => format!("hwrite {} {}", id, hex(&pattern(*rng.pick(SIZES), step))),
            3 | 4 => format!("hsetlen {} {}", id, rng.pick(SIZES)),
            5 => format!("hseek {} {}", id, rng.pick(SIZES)),
            6 => format!("hread {} {}", id, rng.pick(SIZES)),
            7 => format!("hflush {}", id),
            _ => { open.retain(|x| x.0 != id); format!("hclose {}", id) }
        };
    }
    match w % 10 {
        0..=2 if !streams.is_empty() && open.len() < 3 => {
            let id = (0..6).find(|i| !open.iter().any(|o| o.0 == *i)).unwrap();
            let p = rng.pick(streams).0.clone();
            if held(&p, open) {
                return "flush".to_string();
            }
            open.push((id, p.clone()));
            format!("hopen {} {}", id, enc(&p))
        }
        3 | 4 => {
            let p = format!("{}/{}", parent, rng.pick(&names));
            if held(&p, open) { "flush".to_string() } else { format!("put {} {}", enc(&p), hex(&pattern(*rng.pick(SIZES), step))) }
        }
        5 if !streams.is_empty() => {
            let p = rng.pick(streams).0.clone();
            if held(&p, open) { "flush".to_string() } else { format!("rm {}", enc(&p)) }
        }
        6 => format!("mkdir {}", enc(&format!("{}/{}", parent, rng.pick(&names)))),
        7 if !storages.is_empty() => {
            let p = rng.pick(storages).clone();
            if held(&p, open) { "flush".to_string() } else { format!("rmall {}", enc(&p)) }
        }
        8 if !streams.is_empty() => format!("get {}", enc(&rng.pick(streams).0)),
        // the metadata setters, on storages, the root and streams, with times at and beyond both ends of what a
        // FILETIME can hold (before 1601; after the year 60056; the ends of the i64 range of seconds)
        9 => {
            let target = match rng.below(4) {
                0 => "/".to_string(),
                1 if !storages.is_empty() => rng.pick(storages).clone(),
                2 if !streams.is_empty() => rng.pick(streams).0.clone(),
                _ => format!("{}/{}", parent, rng.pick(&names)),
            };
            let secs: i64 = *rng.pick(&[i64::MIN + 1, i64::MIN + 2, -11_644_473_601, -11_644_473_600, -1, 0, 1, 1 << 40, 1_833_029_933_770, 1_833_029_933_771, i64::MAX - 1, i64::MAX]);
            let nanos: u32 = *rng.pick(&[0u32, 1, 99, 100, 999_999_999]);
            match rng.below(5) {
                0 => format!("setctime {} {} {}", enc(&target), secs, nanos),
                1 => format!("setmtime {} {} {}", enc(&target), secs, nanos),
                2 => format!("setbits {} {}", enc(&target), rng.pick(&[0u32, 1, u32::MAX])),
                3 => format!("setclsid {} {}", enc(&target), hex(&pattern(16, step))),
                _ => format!("setmtime {} {} {}", enc(&target), secs, 0),
            }
        }
        _ => "flush".to_string(),
    }
}

/// remove every stream in turn, looking every name up (and creating a new one) after each removal
fn directed_removals(image: &[u8]) -> Option<Vec<String>> {
    let img = image.to_vec();
    let listing = catch(move || {
        let c = CompoundFile::open(std::io::Cursor::new(img)).ok()?;
        let v: Vec<(String, bool)> = c.walk().take(60).map(|e| (e.path().to_string_lossy().to_string(), e.is_stream())).collect();
        Some(v)
    }).ok().flatten()?;
    let mut streams: Vec<String> = Vec::new();
    for (p, is_stream) in &listing {
        if *is_stream && !streams.contains(p) {
            streams.push(p.clone());
        }
    }
    if streams.len() < 2 {
        return None;
    }
    let mut h = Vec::new();
    for (i, s) in streams.iter().enumerate().take(12) {
        h.push(format!("rm {}", enc(s)));
        for t in streams.iter().take(12) {
            h.push(format!("get {}", enc(t)));
        }
        h.push(format!("put {} 0101", enc(&format!("/zq{}", i))));
        h.push(format!("get {}", enc("/q")));
        h.push(format!("get {}", enc("/mm")));
    }
    Some(h)
}

/// A stream whose start sector is the directory chain's (a cross-link that open does not look for: the start of
/// a chain is pointed at by no FAT cell), in a file with a directory of many sectors: resizing that stream cuts the
/// directory chain under the directory, and every later access to an entry beyond the cut must be an error.
fn wide_dir_case(rng: &mut Rng) -> Option<(Vec<u8>, Vec<String>)> {
    use std::io::Write;
    let v4 = rng.chance(1, 3);
    let (s, per) = if v4 { (4096usize, 32usize) } else { (512usize, 4usize) };
    let k = if v4 { 1 + rng.below(2) as usize } else { 8 + rng.below(3) as usize };  // the chain is cut to k sectors (k*S >= 4096)
    let n = (k + 2) * per + 1 + rng.below(per as u64) as usize;
    let bytes = catch(move || {
        let version = if v4 { cfb::Version::V4 } else { cfb::Version::V3 };
        let mut c = CompoundFile::create_with_version(version, std::io::Cursor::new(Vec::new())).ok()?;
        c.create_stream("/victim").ok()?.write_all(&vec![7u8; k * s + 700]).ok()?;
        for i in 0..n {
            let mut st = c.create_stream(format!("/s{:03}", i)).ok()?;
            if i % 7 == 0 { st.write_all(&[i as u8; 80]).ok()?; }
        }
        c.flush().ok()?;
        Some(c.into_inner().into_inner())
    }).ok().flatten()?;
    let mut b = bytes;
    let l = layout(&b);
    let n_ent = l.dir_sectors.len() * per;
    let ent_off = |i: usize| (l.dir_sectors[i / per] + 1) * s + (i % per) * 128;
    let want: Vec<u8> = "victim".encode_utf16().flat_map(|u| u.to_le_bytes()).collect();
    let idx = (1..n_ent).find(|i| b.get(ent_off(*i)..ent_off(*i) + want.len()) == Some(&want[..]) && rd32(&b, ent_off(*i) + 64) & 0xffff == 14)?;
    let dir_start = rd32(&b, 48);
    wr32(&mut b, ent_off(idx) + 116, dir_start);
    let mut h = vec!["hopen 0 ".to_string() + &enc("/victim"), format!("hsetlen 0 {}", k * s), "hclose 0".to_string()];
    for i in (0..n).rev() {
        if i % 3 == 0 { h.push(format!("get {}", enc(&format!("/s{:03}", i)))); }
        h.push(format!("rm {}", enc(&format!("/s{:03}", i))));
        if i % 11 == 0 { h.push(format!("put {} 0102", enc(&format!("/n{}", i)))); }
    }
    h.push("flush".to_string());
    Some((b, h))
}

/// is this call refused for a reason C10 lists, judging by what the file shows right now?
fn predicted_refusal(real: &Real, line: &str) -> bool {
    let Some(comp) = real.comp.as_ref() else { return false };
    let w: Vec<&str> = line.split(' ').collect();
    let path = |a: &str| crate::names::dec(a);
    let parent = |p: &str| -> String {
        let t = p.trim_end_matches('/');
        match t.rfind('/') { Some(0) | None => "/".to_string(), Some(i) => t[..i].to_string() }
    };
    match w.as_slice() {
        ["mkdir", a] => { let p = path(a); comp.exists(&p) || !comp.is_storage(parent(&p)) }
        ["put", a, _] => { let p = path(a); comp.is_storage(&p) || !comp.is_storage(parent(&p)) }
        ["rm", a] => !comp.is_stream(path(a)),
        ["rmall", a] => !comp.exists(path(a)),
        ["get", a] | ["hopen", _, a] => !comp.is_stream(path(a)),
        ["hseek", id, n] => match (id.parse::<u32>().ok().and_then(|i| real.handles.get(&i)), n.parse::<u64>()) {
            (Some(h), Ok(n)) => n > h.len(),
            _ => false,
        },
        _ => false,
    }
}

pub enum CaseResult {
    Rejected,
    OpenPanicked,
    Fine(u64),
    Panic { history: Vec<String>, message: String },
    Hang { history: Vec<String> },
    /// C10 on damaged files: a call answered NotFound / AlreadyExists / InvalidInput changed the backing bytes
    RefusedEffect { history: Vec<String>, message: String },
}

/// Runs a history (given, or generated from `seed`) on `image` under the watchdog.
pub fn run_case(image: Vec<u8>, seed: u64, given: Option<Vec<String>>, max_ops: u64) -> CaseResult {
    let progress: Arc<Mutex<Vec<String>>> = Arc::new(Mutex::new(Vec::new()));
    let p2 = progress.clone();
    let (tx, rx) = mpsc::channel();
    std::thread::spawn(move || {
        let mut rng = Rng::new(seed);
        progress_image("open-damaged", &image);
        let shared = SharedFile::new(image);
        let opened = catch(|| CompoundFile::open(Backend::Mem(shared.clone())));
        let comp = match opened {
            Err(_) => { let _ = tx.send(CaseResult::OpenPanicked); return; }
            Ok(Err(_)) => { let _ = tx.send(CaseResult::Rejected); return; }
            Ok(Ok(c)) => c,
        };
        let mut real = Real::new();
        let backing = shared.clone();
        real.file = Some(ImageSource::Mem(shared));
        real.comp = Some(comp);
        let mut open: Vec<(u32, String)> = Vec::new();
        let n = given.as_ref().map(|g| g.len() as u64).unwrap_or(2 + rng.below(max_ops));
        for step in 0..n {
            let line = match &given {
                Some(g) => g[step as usize].clone(),
                None => {
                    // what the file shows right now (walk itself must not panic either)
                    let listing = catch(|| {
                        let c = real.comp.as_ref().unwrap();
                        let v: Vec<(String, bool, u64)> = c.walk().take(200).map(|e| (e.path().to_string_lossy().to_string(), e.is_stream(), e.len())).collect();
                        v
                    });
                    let listing = match listing {
                        Ok(v) => v,
                        Err(m) => {
                            p2.lock().unwrap().push("walk".into());
                            let _ = tx.send(CaseResult::Panic { history: p2.lock().unwrap().clone(), message: m });
                            return;
                        }
                    };
                    let streams: Vec<(String, u64)> = listing.iter().filter(|x| x.1).map(|x| (x.0.clone(), x.2)).collect();
                    let storages: Vec<String> = listing.iter().filter(|x| !x.1 && x.0 != "/").map(|x| x.0.clone()).collect();
                    gen_line(&mut rng, &streams, &storages, &mut open, step, seed % 2 == 1, seed % 4 == 3)
                }
            };
            p2.lock().unwrap().push(line.clone());
            let before = backing.snapshot();
            // C10 speaks of calls that are *refused* (missing parent, wrong object type, existing name, non-empty
            // storage, invalid path or name, out-of-range seek) — decided from what the file shows before the call.
            // On a damaged file a call may also *fail* half-way with the same error kinds (a chain that ends early:
            // "Cannot seek to .., chain length is .." is InvalidInput): that is a failure, not a refusal, and has
            // changed bytes legitimately.  Judge only refusals that are predictable from the namespace.
            let refusal_predicted = catch(|| predicted_refusal(&real, &line)).unwrap_or(false);
            let r = real.exec(&line);
            if refusal_predicted && (r.starts_with("err notFound") || r.starts_with("err alreadyExists") || r.starts_with("err invalidInput")) && backing.snapshot() != before {
                let _ = tx.send(CaseResult::RefusedEffect { history: p2.lock().unwrap().clone(), message: r.clone() });
                return;
            }
            if given.is_some() {
                println!("STEP {} => {} | {} | {}", crate::apigen::short(&line), crate::apigen::short(&r), real.handle_states(), catch(|| real.dirtable()).unwrap_or_default());
            }
            if r == "panic" {
                let _ = tx.send(CaseResult::Panic { history: p2.lock().unwrap().clone(), message: real.last_panic.take().unwrap_or_default() });
                return;
            }
        }
        // dropping the handles and the file flushes: also under the watchdog
        p2.lock().unwrap().push("drop".into());
        let r = catch(move || drop(real));
        let _ = tx.send(match r {
            Ok(()) => CaseResult::Fine(n),
            Err(m) => CaseResult::Panic { history: p2.lock().unwrap().clone(), message: m },
        });
    });
    match rx.recv_timeout(Duration::from_secs(15)) {
        Ok(r) => r,
        Err(_) => CaseResult::Hang { history: progress.lock().unwrap().clone() },
    }
}

fn site_of(message: &str) -> String {
    // a stable signature: the source location when the hook recorded one, else the message without numbers
    if let Some((_, loc)) = message.rsplit_once(" @ ") {
        return loc.to_string();
    }
    let m: String = message.chars().map(|c| if c.is_ascii_digit() { 'N' } else { c }).collect();
    m.chars().take(90).collect()
}

pub fn campaign(seed: u64, bases: &str, count: u64, max_ops: u64, keepdir: &str) {
    let mut rng = Rng::new(seed);
    let files: Vec<String> = std::fs::read_to_string(bases).unwrap().lines().filter(|l| !l.is_empty()).map(|s| s.to_string()).collect();
    let images: Vec<Vec<u8>> = files.iter().filter_map(|f| std::fs::read(f).ok()).filter(|b| b.len() >= 1536).collect();
    std::fs::create_dir_all(keepdir).unwrap();
    let mut hist = std::collections::BTreeMap::new();
    let (mut accepted, mut ops, mut kept) = (0u64, 0u64, 0u64);
    let mut refused_kept = 0u64;
    let mut seen_sites = std::collections::HashSet::new();
    for k in 0..count {
        let mut b = rng.pick(&images).clone();
        let mut classes: Vec<&'static str> = Vec::new();
        let mut wide: Option<Vec<String>> = None;
        if k % 500 == 11 {
            if let Some((img, h)) = wide_dir_case(&mut rng) {
                b = img;
                wide = Some(h);
                classes.push("stream-on-dir-chain");
            }
        }
        if wide.is_none() {
            for _ in 0..(1 + rng.below(3)) {
                classes.push(if rng.chance(1, 2) { targeted(&mut rng, &mut b) } else { corrupt(&mut rng, &mut b) });
            }
        }
        let case_seed = rng.next();
        // a directory in which an entry has two parents (only a weakened validation accepts it): the random history
        // rarely removes exactly the entry whose removal closes a cycle — remove every stream in turn and look every
        // name up after each removal
        let directed: Option<Vec<String>> = if classes.contains(&"dir-link-shared") { directed_removals(&b) } else { None };
        let mut outcomes = vec![run_case(b.clone(), case_seed, wide.clone(), max_ops)];
        if let Some(h) = directed {
            if matches!(outcomes[0], CaseResult::Fine(_)) {
                outcomes[0] = run_case(b.clone(), case_seed, Some(h), max_ops);
            }
        }
        match outcomes.pop().unwrap() {
            CaseResult::Rejected => *hist.entry("case:rejected-by-open".to_string()).or_insert(0u64) += 1,
            CaseResult::OpenPanicked => *hist.entry("case:open-panicked(C05)".to_string()).or_insert(0) += 1,
            CaseResult::Fine(n) => {
                accepted += 1;
                ops += n;
                for c in &classes {
                    *hist.entry(format!("accepted:{}", c)).or_insert(0) += 1;
                }
            }
            CaseResult::Panic { history, message } => {
                accepted += 1;
                ops += history.len() as u64;
                let site = site_of(&message);
                if seen_sites.insert(site.clone()) && kept < 12 {
                    kept += 1;
                    let img = format!("{}/case{}.cfb", keepdir, k);
                    std::fs::write(&img, &b).unwrap();
                    std::fs::write(format!("{}/case{}.history", keepdir, k), history.join("\n") + "\n").unwrap();
                    println!("ORACLE case {} (seed {}; corruptions {}): {} panicked: {} [image {} history {}/case{}.history]", k, seed, classes.join("+"), history.last().map(|s| short(s)).unwrap_or_default(), message.chars().take(200).collect::<String>(), img, keepdir, k);
                }
                *hist.entry(format!("panic:{}", site.chars().take(50).collect::<String>())).or_insert(0) += 1;
            }
            CaseResult::RefusedEffect { history, message } => {
                accepted += 1;
                ops += history.len() as u64;
                if refused_kept < 6 {
                    refused_kept += 1;
                    let img = format!("{}/refused{}.cfb", keepdir, k);
                    std::fs::write(&img, &b).unwrap();
                    std::fs::write(format!("{}/refused{}.history", keepdir, k), history.join("\n") + "\n").unwrap();
                    println!("REFUSED-EFFECT case {} (seed {}; corruptions {}): {} was answered `{}` but changed the backing bytes [image {} history {}/refused{}.history]", k, seed, classes.join("+"), history.last().map(|s| short(s)).unwrap_or_default(), message.chars().take(120).collect::<String>(), img, keepdir, k);
                }
                *hist.entry("refused-call-changed-bytes".to_string()).or_insert(0) += 1;
            }
            CaseResult::Hang { history } => {
                accepted += 1;
                if kept < 12 {
                    kept += 1;
                    let img = format!("{}/case{}.cfb", keepdir, k);
                    std::fs::write(&img, &b).unwrap();
                    std::fs::write(format!("{}/case{}.history", keepdir, k), history.join("\n") + "\n").unwrap();
                    println!("ORACLE case {} (seed {}; corruptions {}): {} made no progress for 15 s (hang) [image {} history {}/case{}.history]", k, seed, classes.join("+"), history.last().map(|s| short(s)).unwrap_or_default(), img, keepdir, k);
                }
                *hist.entry("hang".to_string()).or_insert(0) += 1;
            }
        }
    }
    println!("STAT cases {}", count);
    println!("STAT accepted {}", accepted);
    println!("STAT ops {}", ops);
    for (k, v) in hist {
        println!("HIST {} {}", k, v);
    }
}

fn short(s: &str) -> String {
    crate::apigen::short(s)
}

/// replay of a kept case
pub fn replay(image_path: &str, history_path: &str) {
    let img = std::fs::read(image_path).unwrap();
    let lines: Vec<String> = std::fs::read_to_string(history_path).unwrap().lines().filter(|l| !l.is_empty() && *l != "drop" && !l.starts_with('#')).map(|s| s.to_string()).collect();
    match run_case(img, 0, Some(lines), 0) {
        CaseResult::Rejected => println!("RESULT rejected by open"),
        CaseResult::OpenPanicked => println!("RESULT open panicked"),
        CaseResult::Fine(n) => println!("RESULT fine after {} calls", n),
        CaseResult::Panic { history, message } => println!("ORACLE replay: {} panicked: {}", history.last().cloned().unwrap_or_default(), message),
        CaseResult::Hang { history } => println!("ORACLE replay: {} made no progress for 15 s (hang)", history.last().cloned().unwrap_or_default()),
        CaseResult::RefusedEffect { history, message } => println!("REFUSED-EFFECT replay: {} was answered `{}` but changed the backing bytes", history.last().cloned().unwrap_or_default(), message),
    }
}

// ---------------------------------------------------------------------------------------------
// C10 on files the library did not write: a refused call must not change a byte, also when the file
// stores entries in a non-canonical (tolerated) form.

/// For every base image that permissive open accepts: refusals of every class aimed at what the file
/// shows; after each refused call the backing bytes are compared with the bytes before it.
pub fn refusal_campaign(seed: u64, bases: &str, per_image: u64) {
    let mut rng = Rng::new(seed);
    let files: Vec<String> = std::fs::read_to_string(bases).unwrap().lines().filter(|l| !l.is_empty()).map(|s| s.to_string()).collect();
    let (mut images, mut calls, mut refused) = (0u64, 0u64, 0u64);
    let mut seen = std::collections::HashSet::new();
    for f in files {
        let Ok(b) = std::fs::read(&f) else { continue };
        progress(&format!("new open-base {}", f));
        let shared = SharedFile::new(b);
        let Ok(Ok(comp)) = catch(|| CompoundFile::open(Backend::Mem(shared.clone()))) else { continue };
        images += 1;
        let mut real = Real::new();
        real.file = Some(ImageSource::Mem(shared.clone()));
        real.comp = Some(comp);
        let listing: Vec<(String, bool)> = real.comp.as_ref().unwrap().walk().take(300).map(|e| (e.path().to_string_lossy().to_string(), e.is_stream())).collect();
        let streams: Vec<&String> = listing.iter().filter(|x| x.1).map(|x| &x.0).collect();
        let storages: Vec<&String> = listing.iter().filter(|x| !x.1 && x.0 != "/").map(|x| &x.0).collect();
        for step in 0..per_image {
            let some_stream = if streams.is_empty() { "/nostream".to_string() } else { (*rng.pick(&streams)).clone() };
            let some_storage = if storages.is_empty() { "/".to_string() } else { (*rng.pick(&storages)).clone() };
            let missing = format!("{}/zz-missing-{}", if rng.chance(1, 2) { "" } else { &some_storage[..] }, step);
            let line = match rng.below(16) {
                0 => format!("setclsid {} {}", enc(&some_stream), hex(&[7u8; 16])),
                1 => format!("setclsid {} {}", enc(&some_stream), hex(&[0u8; 16])),
                2 => format!("setbits {} 5", enc(&missing)),
                3 => format!("setctime {} 1000 0", enc(&missing)),
                4 => format!("rmdir {}", enc(&some_stream)),
                5 => format!("rm {}", enc(&some_storage)),
                6 => format!("rm {}", enc(&missing)),
                7 => format!("mknew {}", enc(&some_stream)),
                8 => format!("mkdir {}", enc(&some_storage)),
                9 => format!("mkdir {}", enc(&some_stream)),
                10 => format!("put {} {}", enc(&format!("{}/child", some_stream)), hex(&pattern(10, step))),
                11 => format!("mkstream {}", enc(&some_storage)),
                12 => format!("hopen 5 {}", enc(&some_storage)),
                13 => format!("mkdir {}", enc(&format!("{}/bad:name", some_storage))),
                14 => format!("mkdirs {}", enc(&format!("{}/x/y", some_stream))),
                _ => format!("rmdir {}", enc(&missing)),
            };
            let before = shared.snapshot();
            let r = real.exec(&line);
            calls += 1;
            if r == "panic" {
                println!("ORACLE refusal on {}: {} panicked: {}", f, short(&line), real.last_panic.take().unwrap_or_default());
                break;
            }
            if crate::apigen::is_refusal(&r) {
                refused += 1;
                let after = shared.snapshot();
                if after != before {
                    let first = before.iter().zip(after.iter()).position(|(a, b)| a != b).unwrap_or(before.len().min(after.len()));
                    let kind = line.split(' ').next().unwrap().to_string();
                    if seen.insert(kind.clone()) {
                        println!("ORACLE refusal on {}: {} was refused ({}) but the file's bytes changed (first difference at offset {}, length {} -> {})", f, short(&line), r, first, before.len(), after.len());
                    }
                }
            }
        }
    }
    println!("STAT refusal_images {}", images);
    println!("STAT refusal_calls {}", calls);
    println!("STAT refused {}", refused);
}

// ---------------------------------------------------------------------------------------------
// The allocation model on damaged tables.  The theorems of C11 (`Phys/NoPanic*.lean`) are about the
// Lean model started from *any* tables; this campaign ties that model to the library on damaged
// files as well: the two-level model is loaded from each accepted damaged image (`load`), the same
// calls are applied, and result, file image (length + hash) and allocator caches are compared after
// every call — up to the first call that fails on either side (after a failure the library is
// half-way through an update the model does not follow).

/// ops: `load <image>` then API lines; impl: `result | P len hash | C caches` per line
pub fn lockstep(seed: u64, bases: &str, count: u64, max_ops: u64, outdir: &str, ops_path: &str, impl_path: &str) {
    use std::fmt::Write as _;
    let mut rng = Rng::new(seed);
    let files: Vec<String> = std::fs::read_to_string(bases).unwrap().lines().filter(|l| !l.is_empty()).map(|s| s.to_string()).collect();
    let images: Vec<Vec<u8>> = files.iter().filter_map(|f| std::fs::read(f).ok()).filter(|b| b.len() >= 1536 && b.len() < 400_000).collect();
    std::fs::create_dir_all(outdir).unwrap();
    let (mut ops_out, mut impl_out) = (String::new(), String::new());
    let mut hist = std::collections::BTreeMap::new();
    let (mut histories, mut calls) = (0u64, 0u64);
    for k in 0..count {
        let mut b = rng.pick(&images).clone();
        let mut classes: Vec<&'static str> = Vec::new();
        for _ in 0..(1 + rng.below(2)) {
            classes.push(targeted(&mut rng, &mut b));
        }
        let shared = SharedFile::new(b.clone());
        let Ok(Ok(comp)) = catch(|| CompoundFile::open(Backend::Mem(shared.clone()))) else { continue };
        let path = format!("{}/D{}.cfb", outdir, k);
        std::fs::write(&path, &b).unwrap();
        let mut real = Real::new();
        real.file = Some(ImageSource::Mem(shared));
        real.comp = Some(comp);
        progress(&format!("new lockstep {}", path));
        writeln!(ops_out, "load {}", path).unwrap();
        writeln!(impl_out, "ok | {}", crate::phys::tail(&real)).unwrap();
        histories += 1;
        for c in &classes {
            *hist.entry(format!("lockstep:{}", c)).or_insert(0u64) += 1;
        }
        let mut open: Vec<(u32, String)> = Vec::new();
        for step in 0..(2 + rng.below(max_ops)) {
            let listing = catch(|| {
                let c = real.comp.as_ref().unwrap();
                c.walk().take(200).map(|e| (e.path().to_string_lossy().to_string(), e.is_stream(), e.len())).collect::<Vec<(String, bool, u64)>>()
            });
            let Ok(listing) = listing else { break };
            let streams: Vec<(String, u64)> = listing.iter().filter(|x| x.1).map(|x| (x.0.clone(), x.2)).collect();
            let storages: Vec<String> = listing.iter().filter(|x| !x.1 && x.0 != "/").map(|x| x.0.clone()).collect();
            let line = gen_line(&mut rng, &streams, &storages, &mut open, step, false, false);
            let r = real.exec(&line);
            calls += 1;
            writeln!(ops_out, "{}", line).unwrap();
            writeln!(impl_out, "{} | {}", r, crate::phys::tail(&real)).unwrap();
            if std::env::var("VERIF_LK_DUMP").ok().and_then(|v| v.parse::<u64>().ok()) == Some(k) {
                // debugging aid: the real image after every step of case k
                let _ = std::fs::write(format!("{}/D{}_step{}.impl", outdir, k, step), real.image());
                if let Some(m) = &real.last_panic { eprintln!("case {} step {}: {}", k, step, m); }
                eprintln!("case {} step {}: {} => {}", k, step, crate::apigen::short(&line), r);
            }
            if r == "panic" || r.starts_with("err") {
                break;
            }
        }
    }
    std::fs::write(ops_path, ops_out).unwrap();
    std::fs::write(impl_path, impl_out).unwrap();
    println!("STAT lockstep_histories {}", histories);
    println!("STAT lockstep_calls {}", calls);
    for (k, v) in hist {
        println!("HIST {} {}", k, v);
    }
}

// ---------------------------------------------------------------------------------------------
// C03 with stale handles: on VALID files, histories in which handles outlive their streams (the stream
// is removed or overwritten, the freed slot is taken by a storage or another stream) and are used
// afterwards.  Such a call is answered with an error or acts on whatever stream now lives in the slot;
// either way every image a history of calls leaves must still be well-formed: at the end the handles
// are dropped, the bytes must reopen in strict mode, and the image is kept for the independent
// checker (`driver speccheck`).

pub fn stale(seed: u64, bases: &str, count: u64, max_ops: u64, outdir: &str, list_path: &str) {
    use std::fmt::Write as _;
    let mut rng = Rng::new(seed);
    let files: Vec<String> = std::fs::read_to_string(bases).unwrap().lines().filter(|l| !l.is_empty()).map(|s| s.to_string()).collect();
    let images: Vec<Vec<u8>> = files.iter().filter_map(|f| std::fs::read(f).ok()).filter(|b| b.len() >= 1536 && b.len() < 400_000).collect();
    std::fs::create_dir_all(outdir).unwrap();
    let mut list = String::new();
    let (mut histories, mut calls, mut stale_calls) = (0u64, 0u64, 0u64);
    let mut reported = 0;
    let mut c02_reported = 0;
    let mut c10_reported = 0;
    let mut refusals = 0u64;
    for k in 0..count {
        let b = rng.pick(&images).clone();
        let shared = SharedFile::new(b.clone());
        let Ok(Ok(comp)) = catch(|| CompoundFile::open_strict(Backend::Mem(shared.clone()))) else { continue };
        let mut real = Real::new();
        real.file = Some(ImageSource::Mem(shared.clone()));
        real.comp = Some(comp);
        progress(&format!("new stale-handles case {}", k));
        histories += 1;
        let mut open: Vec<(u32, String)> = Vec::new();
        let mut history: Vec<String> = Vec::new();
        let mut panicked = false;
        let mut pending: std::collections::VecDeque<String> = Default::default();
        for step in 0..(4 + rng.below(max_ops)) {
            let listing = catch(|| {
                let c = real.comp.as_ref().unwrap();
                c.walk().take(200).map(|e| (e.path().to_string_lossy().to_string(), e.is_stream(), e.len())).collect::<Vec<(String, bool, u64)>>()
            });
            let Ok(listing) = listing else { break };
            let streams: Vec<(String, u64)> = listing.iter().filter(|x| x.1).map(|x| (x.0.clone(), x.2)).collect();
            let storages: Vec<String> = listing.iter().filter(|x| !x.1 && x.0 != "/").map(|x| x.0.clone()).collect();
            // a directed opening for one history in three: a handle whose window is used up before the end of its
            // stream (a small write in the middle, flushed), the stream removed under it, then calls on the handle
            if step == 0 && rng.chance(1, 3) {
                if let Some((p, len)) = streams.iter().find(|s| s.1 >= 100) {
                    let at = 10 + rng.below(len - 60);
                    for l in [format!("hopen 7 {}", enc(p)), format!("hseek 7 {}", at), format!("hwrite 7 {}", hex(&pattern(10, 3))), "hflush 7".to_string(),
                              format!("rm {}", enc(p)), "hread 7 16".to_string(), "hseek 7 5".to_string(), "hread 7 8".to_string()] {
                        pending.push_back(l);
                    }
                    open.push((7, p.clone()));
                }
            }
            // bias: remove a stream a handle is bound to, then create something (the slot is reused)
            let line = if let Some(l) = pending.pop_front() { l } else if !open.is_empty() && rng.chance(1, 4) {
                let p = rng.pick(&open).1.clone();
                if streams.iter().any(|s| s.0 == p) { format!("rm {}", enc(&p)) } else if rng.chance(1, 2) { format!("mkdir {}", enc(&format!("/st{}", step))) } else { format!("put {} {}", enc(&format!("/ns{}", step)), hex(&pattern(*rng.pick(SIZES), step))) }
            } else {
                gen_line(&mut rng, &streams, &storages, &mut open, step, true, false)
            };
            if line.starts_with('h') && !line.starts_with("hopen") {
                if let Some(id) = line.split(' ').nth(1).and_then(|x| x.parse::<u32>().ok()) {
                    if let Some((_, p)) = open.iter().find(|o| o.0 == id) {
                        if !streams.iter().any(|s| &s.0 == p) {
                            stale_calls += 1;
                        }
                    }
                }
            }
            history.push(line.clone());
            // C10: a handle call that is refused (a stale handle's read, write-back, seek or set_len is answered NotFound)
            // changes neither the file nor what the handles show (length, position, unwritten data pending)
            let before = if line.starts_with('h') && !line.starts_with("hopen") && !line.starts_with("hclose") { Some((shared.snapshot(), real.handle_views())) } else { None };
            let r = real.exec(&line);
            calls += 1;
            if r == "panic" {
                panicked = true;
                break;
            }
            if let Some((bytes0, views0)) = before {
                if r == "err notFound" || r == "err invalidInput" || r == "err alreadyExists" {
                    refusals += 1;
                    let what = if shared.snapshot() != bytes0 { Some("the file bytes changed".to_string()) } else {
                        let v = real.handle_views();
                        // `hread` is a loop of read calls (like read_exact): calls before the refused one may have delivered
                        // bytes from the buffer, so the position may have moved forward by less than the request — never back
                        let fwd_ok = line.starts_with("hread") && {
                            let want: u64 = line.split(' ').nth(2).and_then(|x| x.parse().ok()).unwrap_or(0);
                            let parse = |t: &str| -> Vec<(String, u64, u64, String)> { t.split(';').filter(|x| !x.is_empty()).map(|x| { let f: Vec<&str> = x.split(':').collect(); (f[0].to_string(), f[1].parse().unwrap_or(0), f[2].parse().unwrap_or(0), f[3].to_string()) }).collect() };
                            let (a, b) = (parse(&views0), parse(&v));
                            a.len() == b.len() && a.iter().zip(b.iter()).all(|(x, y)| x.0 == y.0 && x.1 == y.1 && x.3 == y.3 && y.2 >= x.2 && y.2 < x.2 + want.max(1))
                        };
                        if v != views0 && !fwd_ok { Some(format!("the handles show [{}] instead of [{}] (id:len:position:dirty)", v, views0)) } else { None }
                    };
                    if let (Some(w), true) = (what, c10_reported < 3) {
                        c10_reported += 1;
                        std::fs::write(format!("{}/S{}.history", outdir, k), history.join("\n") + "\n").unwrap();
                        println!("ORACLE C10 stale-handles case {} (seed {}): `{}` was refused ({}) but {} [history {}/S{}.history]", k, seed, short(&line), r, w, outdir, k);
                    }
                }
            }
        }
        if panicked {
            continue; // C11's subject
        }
        // drop every handle (write-backs of stale handles fail, which is fine), flush, and judge the bytes
        let ids: Vec<u32> = real.handles.keys().cloned().collect();
        for id in ids {
            let _ = real.exec(&format!("hclose {}", id));
        }
        let _ = real.exec("flush");
        let bytes = shared.snapshot();
        // C02 at this boundary (no handle is left): what the live object reports is what reopening the bytes reports
        let live = catch(|| real.dump()).unwrap_or_else(|_| "panic".into());
        let reopened = catch(|| CompoundFile::open(std::io::Cursor::new(bytes.clone())).map(crate::api::dump_of).unwrap_or_else(|e| format!("err {}", err_kind(&e)))).unwrap_or_else(|_| "panic".into());
        if live != reopened && c02_reported < 3 {
            c02_reported += 1;
            std::fs::write(format!("{}/S{}.cfb", outdir, k), &bytes).unwrap();
            std::fs::write(format!("{}/S{}.history", outdir, k), history.join("\n") + "\n").unwrap();
            println!("ORACLE C02 stale-handles case {} (seed {}): after a history in which handles outlive their streams (all handles dropped, flushed) the live object and the reopened bytes differ: live {} / reopened {} [image {}/S{}.cfb history {}/S{}.history]", k, seed, short(&live), short(&reopened), outdir, k, outdir, k);
        }
        let path = format!("{}/S{}.cfb", outdir, k);
        std::fs::write(&path, &bytes).unwrap();
        std::fs::write(format!("{}/S{}.history", outdir, k), history.join("\n") + "\n").unwrap();
        writeln!(list, "{}", path).unwrap();
        if let Err(e) = CompoundFile::open_strict(std::io::Cursor::new(bytes)) {
            if reported < 3 {
                reported += 1;
                println!("ORACLE stale-handles case {} (seed {}): after a history in which handles outlive their streams the bytes no longer open strictly: {} [image {} history {}/S{}.history]", k, seed, e, path, outdir, k);
            }
        }
    }
    std::fs::write(list_path, list).unwrap();
    println!("STAT stale_histories {}", histories);
    println!("STAT stale_calls {}", calls);
    println!("STAT stale_handle_calls {}", stale_calls);
    println!("STAT stale_refusals_judged {}", refusals);
}

// ---------------------------------------------------------------------------------------------
// C17 on files whose free directory slots are not blank.  MS-CFB wants unallocated entries all zero, but
// both open modes accept other bytes there (only the type and the links are read).  Whatever a free
// slot holds, an object created into it starts as a new object: nil CLSID, zero state bits, streams with
// zero times — immediately and after reopening.

pub fn dirty_slots(seed: u64, bases: &str, count: u64) {
    let mut rng = Rng::new(seed);
    let files: Vec<String> = std::fs::read_to_string(bases).unwrap().lines().filter(|l| !l.is_empty()).map(|s| s.to_string()).collect();
    let images: Vec<Vec<u8>> = files.iter().filter_map(|f| std::fs::read(f).ok()).filter(|b| b.len() >= 1536 && b.len() < 400_000).collect();
    let (mut cases, mut dirty_total, mut created) = (0u64, 0u64, 0u64);
    let mut reported = 0;
    for k in 0..count {
        let mut b = rng.pick(&images).clone();
        let l = layout(&b);
        let s = l.s;
        let per = s / 128;
        let mut dirty = 0;
        for i in 1..l.dir_sectors.len() * per {
            let o = (l.dir_sectors[i / per] + 1) * s + (i % per) * 128;
            if o + 128 <= b.len() && b[o + 66] == 0 {
                for x in b[o + 80..o + 116].iter_mut() {
                    *x = (rng.next() as u8) | 1;
                }
                dirty += 1;
            }
        }
        // the same for streams that another writer gave a CLSID and BOTH times (tolerated by permissive open): every
        // stream reports a nil CLSID and zero times, the time setters leave them alone, and once one of them is
        // rewritten through the API (state bits) the bytes open strictly and show the bits
        {
            let mut img = b.clone();
            let mut patched = 0;
            for i in 1..l.dir_sectors.len() * per {
                let o = (l.dir_sectors[i / per] + 1) * s + (i % per) * 128;
                if o + 128 <= img.len() && img[o + 66] == 2 && rng.chance(1, 2) {
                    img[o + 80] = 0x11;
                    img[o + 95] = 0x22;
                    img[o + 100..o + 108].copy_from_slice(&(131343363970000000u64 + rng.below(1000)).to_le_bytes());
                    img[o + 108..o + 116].copy_from_slice(&(131343363980000000u64 + rng.below(1000)).to_le_bytes());
                    patched += 1;
                }
            }
            if patched > 0 {
                let r = catch(move || -> Option<Vec<String>> {
                    let shared = SharedFile::new(img);
                    let mut comp = CompoundFile::open(Backend::Mem(shared.clone())).ok()?;
                    let mut bad = Vec::new();
                    let zero = cfb::verif::system_time_from_timestamp(0);
                    let streams: Vec<String> = comp.walk().filter(|e| e.is_stream()).map(|e| e.path().to_string_lossy().into_owned()).take(40).collect();
                    for e in comp.walk().filter(|e| e.is_stream()) {
                        if !e.clsid().is_nil() || e.created() != zero || e.modified() != zero {
                            bad.push(format!("walk: stream {} reports CLSID {} / times {:?} {:?}", e.path().display(), e.clsid(), e.created(), e.modified()));
                            break;
                        }
                    }
                    for p in streams.iter().take(6) {
                        let _ = comp.set_modified_time(p, std::time::SystemTime::now());
                        let _ = comp.set_created_time(p, std::time::SystemTime::now());
                        if comp.set_state_bits(p, 5).is_err() { continue; }
                        match comp.entry(p) {
                            Ok(e) => if !e.clsid().is_nil() || e.created() != zero || e.modified() != zero || e.state_bits() != 5 {
                                bad.push(format!("after the setters: stream {} reports CLSID {} times {:?} {:?} bits {}", p, e.clsid(), e.created(), e.modified(), e.state_bits()));
                            },
                            Err(e) => bad.push(format!("entry({}) fails: {}", p, e)),
                        }
                    }
                    let _ = comp.flush();
                    if streams.len() <= 6 {
                        // every patched stream entry has been rewritten: the bytes are a strictly valid file again
                        match CompoundFile::open_strict(std::io::Cursor::new(shared.snapshot())) {
                            Ok(c2) => for p in streams.iter() {
                                if c2.entry(p).map(|e| e.state_bits()).unwrap_or(0) != 5 { bad.push(format!("after reopening: state bits of {} are not 5", p)); }
                            },
                            Err(e) => bad.push(format!("after set_state_bits on every stream the bytes no longer open strictly: {}", e)),
                        }
                    }
                    Some(bad)
                });
                match r {
                    Ok(Some(bad)) => {
                        created += 1;
                        if let (Some(m), true) = (bad.first(), reported < 3) {
                            reported += 1;
                            println!("ORACLE foreign-stream-metadata case {} (seed {}, permissive open, {} stream entries given a CLSID and both times): {}", k, seed, patched, m);
                        }
                    }
                    Ok(None) => {}
                    Err(m) => println!("ORACLE foreign-stream-metadata case {} (seed {}): panic: {}", k, seed, m.chars().take(160).collect::<String>()),
                }
            }
        }
        if dirty == 0 {
            continue;
        }
        for strict in [false, true] {
            let img = b.clone();
            let r = catch(move || -> Option<Vec<String>> {
                let shared = SharedFile::new(img);
                let mut comp = if strict { CompoundFile::open_strict(Backend::Mem(shared.clone())).ok()? } else { CompoundFile::open(Backend::Mem(shared.clone())).ok()? };
                let mut bad = Vec::new();
                let zero = cfb::verif::system_time_from_timestamp(0);
                let mut judge = |comp: &CompoundFile<Backend>, path: &str, is_stream: bool, when: &str, bad: &mut Vec<String>| {
                    match comp.entry(path) {
                        Ok(e) => {
                            if !e.clsid().is_nil() { bad.push(format!("{} {}: CLSID {} instead of nil", when, path, e.clsid())); }
                            if e.state_bits() != 0 { bad.push(format!("{} {}: state bits {} instead of 0", when, path, e.state_bits())); }
                            if is_stream && (e.created() != zero || e.modified() != zero) { bad.push(format!("{} {}: a stream with timestamps", when, path)); }
                        }
                        Err(e) => bad.push(format!("{} {}: entry() fails: {}", when, path, e)),
                    }
                };
                for i in 0..3 {
                    let (ps, pd) = (format!("/zz_new_stream{}", i), format!("/zz_new_storage{}", i));
                    if comp.create_stream(&ps).is_ok() { judge(&comp, &ps, true, "right after creation", &mut bad); }
                    if comp.create_storage(&pd).is_ok() { judge(&comp, &pd, false, "right after creation", &mut bad); }
                }
                let _ = comp.flush();
                let bytes = shared.snapshot();
                match CompoundFile::open_strict(std::io::Cursor::new(bytes)) {
                    Ok(c2) => {
                        for i in 0..3 {
                            for (p, is_stream) in [(format!("/zz_new_stream{}", i), true), (format!("/zz_new_storage{}", i), false)] {
                                if c2.exists(&p) {
                                    match c2.entry(&p) {
                                        Ok(e) => {
                                            if !e.clsid().is_nil() || e.state_bits() != 0 || (is_stream && (e.created() != zero || e.modified() != zero)) {
                                                bad.push(format!("after reopening {}: CLSID {} state bits {}", p, e.clsid(), e.state_bits()));
                                            }
                                        }
                                        Err(e) => bad.push(format!("after reopening {}: entry() fails: {}", p, e)),
                                    }
                                }
                            }
                        }
                    }
                    Err(e) => bad.push(format!("after creating objects in the free slots the bytes no longer open strictly: {}", e)),
                }
                Some(bad)
            });
            match r {
                Ok(Some(bad)) => {
                    cases += 1;
                    created += 6;
                    if let Some(m) = bad.first() {
                        if reported < 3 {
                            reported += 1;
                            println!("ORACLE dirty-free-slots case {} (seed {}, {} open, {} free slots filled with non-zero CLSID/state/time bytes): {}", k, seed, if strict { "strict" } else { "permissive" }, dirty, m);
                        }
                    }
                }
                Ok(None) => {}
                Err(m) => println!("ORACLE dirty-free-slots case {} (seed {}): panic: {}", k, seed, m.chars().take(160).collect::<String>()),
            }
        }
        dirty_total += dirty as u64;
    }
    println!("STAT dirty_cases {}", cases);
    println!("STAT dirty_slots {}", dirty_total);
    println!("STAT dirty_created {}", created);
}
