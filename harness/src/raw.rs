//! Reader campaigns (C02/C04/C05/C16): open byte images with the real crate in both modes and
//! dump the logical content; the Lean `Raw` model does the same on the same files.
use crate::api::render_entry;
use crate::util::*;
use cfb::{CompoundFile, Entry, OpenOptions};
use std::fmt::Write as _;
use std::io::{Cursor, Read};
use std::sync::mpsc;
use std::time::Duration;

pub fn dump_comp(comp: &mut CompoundFile<Cursor<Vec<u8>>>) -> String {
    let entries: Vec<Entry> = comp.walk().collect();
    let list: Vec<String> = entries.iter().map(render_entry).collect();
    let mut s = format!("ok [{}]", list.join(","));
    for e in entries.iter().filter(|e| e.is_stream()) {
        let mut v = Vec::new();
        match comp.open_stream(e.path()).and_then(|mut st| st.read_to_end(&mut v)) {
            Ok(_) => s.push_str(&format!(" {}", hex(&v))),
            Err(_) => s.push_str(" err"),
        }
        // seeks and buffered reads on whatever this stream is: every seek result is judged against
        // the rule "new position computed without wrap-around; accepted iff 0 <= new <= len"
        // (C05/C06), and nothing may panic or hang (the worker has a watchdog and a panic hook)
        if let Ok(mut st) = comp.open_stream(e.path()) {
            use std::io::{BufRead, Seek, SeekFrom};
            let len = st.len();
            let mut pos: u64 = 0;
            for p in [
                SeekFrom::End(i64::MIN), SeekFrom::Current(i64::MIN), SeekFrom::Start(u64::MAX), SeekFrom::End(0),
                SeekFrom::Current(i64::MAX), SeekFrom::Start(len.saturating_sub(3)), SeekFrom::Current(i64::MAX),
                SeekFrom::Start((1u64 << 63) + 10), SeekFrom::Current(i64::MAX), SeekFrom::Current(i64::MIN),
                SeekFrom::Start(e.len() / 2), SeekFrom::Current(-1), SeekFrom::Current(i64::MAX),
            ] {
                let want: i128 = match p {
                    SeekFrom::Start(n) => n as i128,
                    SeekFrom::End(d) => len as i128 + d as i128,
                    SeekFrom::Current(d) => pos as i128 + d as i128,
                };
                let ok = want >= 0 && want <= len as i128;
                match st.seek(p) {
                    Ok(n) if ok && n as i128 == want => pos = n,
                    Err(_) if !ok => {}
                    other => s.push_str(&format!(" SEEKBAD({:?} at {} of {} -> {:?})", p, pos, len, other.map_err(|e| e.kind()))),
                }
                if st.stream_position().ok() != Some(pos) {
                    s.push_str(&format!(" POSBAD({:?} want {})", p, pos));
                }
                let n = st.fill_buf().map(|b| b.len()).unwrap_or(0);
                let n = n.min(3);
                st.consume(n);
                pos += n as u64;
            }
            // read-only calls interleaved on one thread: iterators over the directory that are still alive while the
            // handle reads (every call must return; the listing must be what it was)
            {
                let mut it = comp.walk();
                let first = it.next().is_some();
                let _ = st.seek(SeekFrom::Start(0));
                let _ = st.fill_buf().map(|b| b.len());
                let rest = it.count();
                if first as usize + rest != entries.len() {
                    s.push_str(&format!(" WALKBAD({} of {})", first as usize + rest, entries.len()));
                }
                let it2 = comp.read_root_storage();
                let _ = st.seek(SeekFrom::Start(len / 2));
                let _ = st.fill_buf().map(|b| b.len());
                let _ = it2.count();
            }
        }
    }
    // path lookups that descend THROUGH every entry (no object exists below a stream, and none of this
    // name below a storage): every read-only method, nothing may panic or hang, nothing may be found
    for e in entries.iter() {
        let below = e.path().join("\u{1}no such name");
        let deeper = below.join("x");
        for q in [&below, &deeper] {
            let found = comp.exists(q) || comp.is_stream(q) || comp.is_storage(q) || comp.entry(q).is_ok()
                || comp.open_stream(q).is_ok() || comp.read_storage(q).is_ok() || comp.walk_storage(q).is_ok();
            if found {
                s.push_str(&format!(" THROUGHBAD({})", crate::names::enc(q.to_str().unwrap_or("?"))));
            }
        }
    }
    s
}

/// The same image once more with the smallest stream buffer (so that a stream of a few kilobytes already
/// needs several windows): every stream is read in 700-byte requests, and when a read fails the client carries
/// on on the same handle — position query, relative seek, buffered read, the next read — as far as three
/// errors.  Nothing may panic; the position must stay inside the stream.  Returns markers only (the logical
/// dump is `dump_comp`'s).
fn reads_after_errors(bytes: &[u8], strict: bool) -> String {
    use std::io::{BufRead, Seek, SeekFrom};
    let mut s = String::new();
    let o = OpenOptions::new().max_buffer_size(1024);
    let r = if strict { o.strict().open_with(Cursor::new(bytes.to_vec())) } else { o.open_with(Cursor::new(bytes.to_vec())) };
    let Ok(mut comp) = r else { return s };
    let entries: Vec<Entry> = comp.walk().collect();
    for e in entries.iter().filter(|e| e.is_stream()) {
        let Ok(mut st) = comp.open_stream(e.path()) else { continue };
        let len = st.len();
        let mut buf = [0u8; 700];
        let (mut errs, mut rounds) = (0, 0u64);
        loop {
            rounds += 1;
            if rounds > (len / 700 + 20).min(3000) {
                break;
            }
            match st.read(&mut buf) {
                Ok(0) => break,
                Ok(_) => {
                    if errs > 0 {
                        // after an error every further call is still judged
                        if let Ok(p) = st.stream_position() {
                            if p > len {
                                s.push_str(&format!(" AFTERERR(position {} of {})", p, len));
                            }
                        }
                        let _ = st.seek(SeekFrom::Current(0));
                    }
                }
                Err(_) => {
                    errs += 1;
                    if let Ok(p) = st.stream_position() {
                        if p > len {
                            s.push_str(&format!(" AFTERERR(position {} of {})", p, len));
                        }
                    }
                    let _ = st.seek(SeekFrom::Current(0));
                    let _ = st.fill_buf().map(|b| b.len());
                    let _ = st.seek(SeekFrom::Current(0));
                    if errs >= 3 {
                        break;
                    }
                }
            }
        }
    }
    s
}

pub fn open_dump(bytes: Vec<u8>, strict: bool) -> String {
    crate::util::progress_image(if strict { "open strict" } else { "open permissive" }, &bytes);
    let (tx, rx) = mpsc::channel();
    std::thread::spawn(move || {
        let again = bytes.clone();
        let r = catch(move || {
            // the ways of asking for a mode are equivalent: rotate through them (an option set earlier in
            // the builder chain must survive the later ones)
            static VARIANT: std::sync::atomic::AtomicUsize = std::sync::atomic::AtomicUsize::new(0);
            let v = VARIANT.fetch_add(1, std::sync::atomic::Ordering::SeqCst) % 4;
            let big = 1usize << 20;
            let r = if strict {
                match v {
                    0 => OpenOptions::new().strict().open_with(Cursor::new(bytes)),
                    1 => cfb::CompoundFile::open_strict(Cursor::new(bytes)),
                    2 => OpenOptions::new().strict().max_buffer_size(big).open_with(Cursor::new(bytes)),
                    _ => OpenOptions::new().max_buffer_size(big).strict().open_with(Cursor::new(bytes)),
                }
            } else {
                match v {
                    0 => OpenOptions::new().open_with(Cursor::new(bytes)),
                    1 => cfb::CompoundFile::open(Cursor::new(bytes)),
                    2 => OpenOptions::new().max_buffer_size(big).open_with(Cursor::new(bytes)),
                    _ => OpenOptions::default().open_with(Cursor::new(bytes)),
                }
            };
            match r {
                Ok(mut comp) => {
                    let mut d = dump_comp(&mut comp);
                    d.push_str(&reads_after_errors(&again, strict));
                    d
                }
                Err(e) => format!("err {}", err_kind(&e)),
            }
        });
        let _ = tx.send(r.unwrap_or_else(|m| format!("panic {}", m.chars().take(120).collect::<String>())));
    });
    match rx.recv_timeout(Duration::from_secs(10)) {
        Ok(s) => s,
        Err(_) => "timeout".into(),
    }
}

/// `list`: file with one image path per line.  `start` is the index of the first (file, mode) pair
/// to run (outputs are appended when it is not 0).  A pair that times out leaves a runaway worker
/// thread behind (it may be allocating without bound): the outputs so far are written and the
/// process exits with code 75 after printing `RESTART <next pair>`; the caller runs it again.
pub fn run(list: &str, ops_path: &str, impl_path: &str, start: usize) {
    use std::io::Write as _;
    let files = std::fs::read_to_string(list).unwrap();
    let open = |p: &str| std::fs::OpenOptions::new().create(true).write(true).append(start > 0).truncate(start == 0).open(p).unwrap();
    let (mut ops, mut imp) = (open(ops_path), open(impl_path));
    let mut k = 0usize;
    for f in files.lines().filter(|l| !l.is_empty()) {
        let Ok(bytes) = std::fs::read(f) else { k += 2; continue };
        for mode in ["permissive", "strict"] {
            k += 1;
            if k <= start {
                continue;
            }
            progress(&format!("new open {} {}", mode, f));
            let r = open_dump(bytes.clone(), mode == "strict");
            writeln!(ops, "open {} {}", mode, f).unwrap();
            writeln!(imp, "{}", r).unwrap();
            if r == "timeout" {
                ops.flush().unwrap();
                imp.flush().unwrap();
                println!("RESTART {}", k);
                std::process::exit(75);
            }
        }
    }
}
