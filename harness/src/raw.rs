//! Reader campaigns (C02/C04/C05/C16): open byte images with the real crate in both modes and
//! dump the logical content; the Lean `Raw` model does the same on the same files.
use crate::api::render_entry;
use crate::util::*;
use cfb::{CompoundFile, Entry, OpenOptions};
use std::fmt::Write as _;
use std::io::{Cursor, Read};
use std::sync::mpsc;
use std::time::Duration;

pub fn dump_comp(comp: &mut CompoundFile<Cursor<Vec<u8>>>) -> String {
    let entries: Vec<Entry> = comp.walk().collect();
    let list: Vec<String> = entries.iter().map(render_entry).collect();
    let mut s = format!("ok [{}]", list.join(","));
    for e in entries.iter().filter(|e| e.is_stream()) {
        let mut v = Vec::new();
        match comp.open_stream(e.path()).and_then(|mut st| st.read_to_end(&mut v)) {
            Ok(_) => s.push_str(&format!(" {}", hex(&v))),
            Err(_) => s.push_str(" err"),
        }
        // seeks and buffered reads on whatever this stream is: results are not compared, only that
        // nothing panics or hangs (the worker has a watchdog and a panic hook)
        if let Ok(mut st) = comp.open_stream(e.path()) {
            use std::io::{BufRead, Seek, SeekFrom};
            for p in [SeekFrom::End(i64::MIN), SeekFrom::Current(i64::MIN), SeekFrom::Start(u64::MAX), SeekFrom::End(0), SeekFrom::Start(e.len() / 2), SeekFrom::Current(-1), SeekFrom::Current(i64::MAX)] {
                let _ = st.seek(p);
                let n = st.fill_buf().map(|b| b.len()).unwrap_or(0);
                st.consume(n.min(3));
            }
        }
    }
    s
}

pub fn open_dump(bytes: Vec<u8>, strict: bool) -> String {
    let (tx, rx) = mpsc::channel();
    std::thread::spawn(move || {
        let r = catch(|| {
            let mut o = OpenOptions::new();
            if strict {
                o = o.strict();
            }
            match o.open_with(Cursor::new(bytes)) {
                Ok(mut comp) => dump_comp(&mut comp),
                Err(e) => format!("err {}", err_kind(&e)),
            }
        });
        let _ = tx.send(r.unwrap_or_else(|m| format!("panic {}", m.chars().take(120).collect::<String>())));
    });
    match rx.recv_timeout(Duration::from_secs(10)) {
        Ok(s) => s,
        Err(_) => "timeout".into(),
    }
}

/// `list`: file with one image path per line.
pub fn run(list: &str, ops_path: &str, impl_path: &str) {
    let files = std::fs::read_to_string(list).unwrap();
    let mut ops = String::new();
    let mut imp = String::new();
    for f in files.lines().filter(|l| !l.is_empty()) {
        let Ok(bytes) = std::fs::read(f) else { continue };
        for mode in ["permissive", "strict"] {
            writeln!(ops, "open {} {}", mode, f).unwrap();
            writeln!(imp, "{}", open_dump(bytes.clone(), mode == "strict")).unwrap();
        }
    }
    std::fs::write(ops_path, ops).unwrap();
    std::fs::write(impl_path, imp).unwrap();
}
