//! C12 / C13: fault enumeration.  A wrapper around the in-memory file counts the underlying
//! calls and fails the selected ones; the workload is re-run once per fault position.
use crate::util::*;
use cfb::{CompoundFile, OpenOptions, Version};
use std::fmt::Write as _;
use std::io::{self, Read, Seek, SeekFrom, Write};
use std::sync::atomic::{AtomicBool, AtomicU64, Ordering};
use std::sync::Arc;

/// runs of the write-fault campaigns that did not come back within their watchdog
static HANGS_SEEN: AtomicU64 = AtomicU64::new(0);

pub struct Ctl {
    pub calls: AtomicU64,
    pub fail_a: AtomicU64,
    pub fail_b: AtomicU64,
    pub fired: AtomicU64,
    pub count_reads: AtomicBool,
    pub count_writes: AtomicBool,
    /// C13: run the small-buffer write workload instead of the main one
    pub small_buffer: AtomicBool,
    /// write-back view of the underlying file: set by every underlying write, cleared by a successful underlying flush
    pub dirty: AtomicBool,
    /// the injected error has kind `Interrupted` (which `read_exact` / `write_all` retry) instead of `Other`
    /// 0 = kind Other, 1 = Interrupted, 2 = UnexpectedEof, 3 = a read that returns Ok(0) (seeks: UnexpectedEof)
    pub kind: AtomicU64,
    /// C12: after a failed read, retry at once (no look-back seek), checking the position the handle reports
    pub plain_retry: AtomicBool,
}

impl Ctl {
    pub fn new(reads: bool, writes: bool) -> Arc<Ctl> {
        Arc::new(Ctl {
            calls: AtomicU64::new(0),
            fail_a: AtomicU64::new(u64::MAX),
            fail_b: AtomicU64::new(u64::MAX),
            fired: AtomicU64::new(0),
            count_reads: AtomicBool::new(reads),
            count_writes: AtomicBool::new(writes),
            small_buffer: AtomicBool::new(false),
            dirty: AtomicBool::new(false),
            kind: AtomicU64::new(0),
            plain_retry: AtomicBool::new(false),
        })
    }
    fn hit(&self, is_read_side: bool) -> io::Result<()> {
        let counted = if is_read_side { self.count_reads.load(Ordering::SeqCst) } else { self.count_writes.load(Ordering::SeqCst) };
        if !counted {
            return Ok(());
        }
        let k = self.calls.fetch_add(1, Ordering::SeqCst);
        if k == self.fail_a.load(Ordering::SeqCst) || k == self.fail_b.load(Ordering::SeqCst) {
            self.fired.fetch_add(1, Ordering::SeqCst);
            if std::env::var("VERIF_FAULT_BT").is_ok() {
                let bt = std::backtrace::Backtrace::force_capture().to_string();
                let frames: Vec<&str> = bt.lines().filter(|l| l.contains("cfb::") && !l.contains("cfb_verif_harness")).map(|l| l.trim()).collect();
                println!("FAULT-SITE call {}: {}", k, frames.join(" <- "));
            }
            return Err(match self.kind.load(Ordering::SeqCst) {
                1 => io::Error::new(io::ErrorKind::Interrupted, "injected fault (interrupted)"),
                2 => io::Error::new(io::ErrorKind::UnexpectedEof, "injected fault (unexpected eof)"),
                3 => io::Error::new(io::ErrorKind::UnexpectedEof, "injected fault (zero-length read)"),
                // write-side faults come in several kinds (by position): nothing in the library may treat one of
                // them as "nothing to report" or "nothing to retry"
                _ if !is_read_side => match k % 4 {
                    1 => io::Error::new(io::ErrorKind::NotFound, "injected fault (not found)"),
                    2 => io::Error::new(io::ErrorKind::PermissionDenied, "injected fault (permission denied)"),
                    3 => io::Error::new(io::ErrorKind::InvalidInput, "injected fault (invalid input)"),
                    _ => io::Error::other("injected fault"),
                },
                _ => io::Error::other("injected fault"),
            });
        }
        Ok(())
    }
}

pub struct FaultyFile {
    pub inner: SharedFile,
    pub ctl: Arc<Ctl>,
    /// seeks count as read-side calls in read-only workloads and as write-side calls otherwise
    pub seek_is_read: bool,
}

impl Read for FaultyFile {
    fn read(&mut self, buf: &mut [u8]) -> io::Result<usize> {
        if let Err(e) = self.ctl.hit(true) {
            if self.ctl.kind.load(Ordering::SeqCst) == 3 {
                return Ok(0); // the reader claims to be at its end
            }
            return Err(e);
        }
        self.inner.read(buf)
    }
}
impl Write for FaultyFile {
    fn write(&mut self, buf: &[u8]) -> io::Result<usize> {
        self.ctl.hit(false)?;
        let r = self.inner.write(buf);
        if r.is_ok() {
            self.ctl.dirty.store(true, Ordering::SeqCst);
        }
        r
    }
    fn flush(&mut self) -> io::Result<()> {
        self.ctl.hit(false)?;
        let r = self.inner.flush();
        if r.is_ok() {
            self.ctl.dirty.store(false, Ordering::SeqCst);
        }
        r
    }
}
impl Seek for FaultyFile {
    fn seek(&mut self, pos: SeekFrom) -> io::Result<u64> {
        self.ctl.hit(self.seek_is_read)?;
        self.inner.seek(pos)
    }
}

fn base_image(version: Version, wide: bool) -> (Vec<u8>, Vec<(String, Vec<u8>)>) {
    let mut comp = CompoundFile::create_with_version(version, SharedFile::new(Vec::new())).unwrap();
    let mut streams = Vec::new();
    comp.create_storage("/a").unwrap();
    comp.create_storage("/a/b").unwrap();
    // `wide`: a pad first, so that the file needs a second FAT sector (V3: > 128 sectors) and the
    // streams read afterwards live behind it
    let list: Vec<(&str, usize, u64)> = if wide {
        vec![("/a/small", 700, 2), ("/tiny", 10, 4), ("/pad", 130 * 512, 9), ("/alpha", 9 * 512, 6), ("/beta", 9 * 512, 7)]
    } else {
        vec![("/big", 20000usize, 1u64), ("/a/small", 700, 2), ("/a/b/mid", 4096, 3), ("/tiny", 10, 4), ("/empty", 0, 5)]
    };
    if wide {
        // all directory entries first, so that the directory, the MiniFAT and the mini stream lie in
        // front of the second FAT sector and only stream chains lie behind it
        for (p, _, _) in &list {
            comp.create_stream(p).unwrap();
        }
    }
    for (p, n, salt) in list {
        let data = pattern(n, salt);
        comp.create_stream(p).unwrap().write_all(&data).unwrap();
        streams.push((p.to_string(), data));
    }
    comp.flush().unwrap();
    (comp.into_inner().snapshot(), streams)
}

/// The read-only workload.  Returns the transcript (one line per API call) and violations.
/// Every failed call is retried (up to 3 times).
fn read_workload(image: &[u8], streams: &[(String, Vec<u8>)], ctl: Arc<Ctl>, handle_trace: Option<&mut Vec<String>>) -> (Vec<String>, Vec<String>) {
    let mut t = Vec::new();
    let mut bad = Vec::new();
    let mut trace = handle_trace;
    let mut comp = None;
    for attempt in 0..4 {
        let file = FaultyFile { inner: SharedFile::new(image.to_vec()), ctl: ctl.clone(), seek_is_read: true };
        match OpenOptions::new().max_buffer_size(1024).open_with(file) {
            Ok(c) => {
                t.push("open ok".to_string());
                comp = Some(c);
                break;
            }
            Err(_) => t.push(format!("open err (attempt {})", attempt)),
        }
    }
    let Some(mut comp) = comp else { return (t, bad) };
    let listing: Vec<String> = comp.walk().map(|e| format!("{}:{}", e.path().display(), e.len())).collect();
    t.push(format!("walk {}", listing.join(",")));
    t.push(format!("exists {} {}", comp.exists("/a/b/mid"), comp.is_stream("/big")));
    for (path, content) in streams {
        let mut s = match comp.open_stream(path) {
            Ok(s) => s,
            Err(e) => {
                t.push(format!("open_stream {} err {}", path, err_kind(&e)));
                continue;
            }
        };
        let traced = path == "/big";
        if traced {
            if let Some(tr) = trace.as_mut() {
                tr.push(format!("new 3 1024 {}", hex(content)));
            }
        }
        let mut cursor = 0usize;
        let mut script: Vec<(&str, i64)> = Vec::new();
        for _ in 0..(content.len() / 700 + 2) {
            script.push(("read", 700));
        }
        script.push(("seek", (content.len() / 2) as i64));
        script.push(("read", 700));
        script.push(("seekend", -(content.len().min(10) as i64)));
        script.push(("read", 700));
        script.push(("read", 700));
        script.push(("seek", 0));
        script.push(("read", 100));
        // requests at least as large as the stream buffer's maximum (1024 here), from a position where the
        // window is exhausted or was dropped: a reader that bypasses its buffer for large requests takes
        // this path
        script.push(("seek", (content.len() / 3) as i64));
        script.push(("read", 3000));
        script.push(("read", 1024));
        script.push(("seek", 0));
        script.push(("read", 5000));
        for (op, arg) in script {
            let mut tries = 0;
            // a `read` step collects `arg` bytes (or up to the end) over as many calls as it takes,
            // so that its result does not depend on where the window happens to be
            let mut got = 0usize;
            loop {
                tries += 1;
                let before_fired = ctl.fired.load(Ordering::SeqCst);
                let mut partial = false;
                let req = if op == "read" { arg as usize - got } else { 0 };
                let res: Result<String, String> = match op {
                    "read" => {
                        let mut buf = vec![0u8; req];
                        match s.read(&mut buf) {
                            Ok(k) => {
                                if buf[..k] != content[cursor.min(content.len())..(cursor + k).min(content.len())] || (k == 0 && cursor < content.len()) {
                                    bad.push(format!("read of {} at position {} of {} returned bytes that differ from the stream's content (first difference at byte {})", path, cursor, content.len(),
                                        cursor + buf[..k].iter().zip(content[cursor.min(content.len())..].iter()).position(|(a, b)| a != b).unwrap_or(0)));
                                }
                                cursor += k;
                                got += k;
                                partial = k > 0 && got < arg as usize;
                                Ok(format!("read {}", got))
                            }
                            Err(e) => Err(err_kind(&e).to_string()),
                        }
                    }
                    "seek" => match s.seek(SeekFrom::Start(arg as u64)) {
                        Ok(p) => { cursor = p as usize; Ok(format!("seek {}", p)) }
                        Err(e) => Err(err_kind(&e).to_string()),
                    },
                    _ => match s.seek(SeekFrom::End(arg)) {
                        Ok(p) => { cursor = p as usize; Ok(format!("seek {}", p)) }
                        Err(e) => Err(err_kind(&e).to_string()),
                    },
                };
                let fired = ctl.fired.load(Ordering::SeqCst) > before_fired;
                if traced {
                    if let Some(tr) = trace.as_mut() {
                        let st = s.verif_state();
                        let line = match op {
                            "read" => format!("read {}", req),
                            "seek" => format!("seek start {}", arg),
                            _ => format!("seek end {}", arg),
                        };
                        let out = match &res {
                            Ok(_) => "ok".to_string(),
                            Err(_) => "ioerr".to_string(),
                        };
                        tr.push(format!("{}{} => {} | {} {} {} {} {} {}", line, if fired { " F refill" } else { "" }, out, st.1, st.2, st.3, st.4, st.5, st.7 as u8));
                    }
                }
                if partial {
                    tries -= 1;
                    continue;
                }
                match res {
                    Ok(line) => {
                        t.push(format!("{} {}", path, line));
                        break;
                    }
                    Err(k) => {
                        t.push(format!("{} {} err {}", path, op, k));
                        if !fired {
                            bad.push(format!("{} on {} failed ({}) although no fault was injected into it", op, path, k));
                        }
                        // plain retry: the failed call has not moved the handle - its reported position is the
                        // position of the last successful call, and the retry goes on from there
                        if op == "read" && ctl.plain_retry.load(Ordering::SeqCst) {
                            ctl.count_reads.store(false, Ordering::SeqCst);
                            let pos = s.stream_position();
                            ctl.count_reads.store(true, Ordering::SeqCst);
                            match pos {
                                Ok(p) if p as usize == cursor => {}
                                Ok(p) => bad.push(format!("after a failed read of {} at position {} the handle reports position {}", path, cursor, p)),
                                Err(_) => {}
                            }
                        } else
                        // look back: after the failed call the same handle must still serve the true
                        // bytes of what it had buffered before (not recorded in the transcript)
                        if op == "read" && cursor > 0 {
                            let back = cursor.saturating_sub(1024);
                            let mut probe = |s: &mut cfb::Stream<FaultyFile>, what: &str, pos: usize, n: usize| -> Option<Vec<u8>> {
                                let r = if n == 0 {
                                    s.seek(SeekFrom::Start(pos as u64)).map(|_| Vec::new())
                                } else {
                                    let mut b = vec![0u8; n];
                                    s.read(&mut b).map(|k| b[..k].to_vec())
                                };
                                if traced {
                                    if let Some(tr) = trace.as_mut() {
                                        let st = s.verif_state();
                                        // a probe that itself meets the second fault is left out of the trace comparison
                                        if r.is_ok() {
                                            tr.push(format!("{} => ok | {} {} {} {} {} {}", what, st.1, st.2, st.3, st.4, st.5, st.7 as u8));
                                        } else {
                                            tr.push("STOP".to_string());
                                        }
                                    }
                                }
                                r.ok()
                            };
                            if probe(&mut s, &format!("seek start {}", back), back, 0).is_some() {
                                let mut at = back;
                                while at < cursor {
                                    let want = (cursor - at).min(400);
                                    match probe(&mut s, &format!("read {}", want), at, want) {
                                        Some(got) if !got.is_empty() => {
                                            if got[..] != content[at..at + got.len()] {
                                                bad.push(format!("after a failed read of {} at position {}, seeking back to {} and reading returned bytes that differ from the stream's content (first difference at byte {})", path, cursor, back,
                                                    at + got.iter().zip(content[at..].iter()).position(|(a, b)| a != b).unwrap_or(0)));
                                                break;
                                            }
                                            at += got.len();
                                        }
                                        Some(_) => {
                                            bad.push(format!("after a failed read of {} at position {}, reading at {} returned nothing before the end", path, cursor, at));
                                            break;
                                        }
                                        None => break,
                                    }
                                }
                            }
                            for _ in 0..3 {
                                if probe(&mut s, &format!("seek start {}", cursor), cursor, 0).is_some() {
                                    break;
                                }
                            }
                        }
                        if tries >= 4 {
                            break;
                        }
                    }
                }
            }
        }
    }
    (t, bad)
}

/// Strip retries: the sequence of successful results must equal the fault-free transcript.
fn successes(t: &[String]) -> Vec<String> {
    t.iter().filter(|l| !l.contains(" err")).cloned().collect()
}

pub fn read_campaign(seed: u64, pairs: u64, ops_path: &str, impl_path: &str) {
    let mut rng = Rng::new(seed);
    if let Ok(k) = std::env::var("VERIF_DEBUG_K") {
        // replay of one fault position on the image with two FAT sectors: print the transcript
        let (image, streams) = base_image(Version::V3, std::env::var("VERIF_DEBUG_WIDE").is_ok());
        let ctl = Ctl::new(true, false);
        ctl.fail_a.store(k.parse().unwrap(), Ordering::SeqCst);
        let (t, bad) = read_workload(&image, &streams, ctl, None);
        for l in &t {
            println!("T {}", l.chars().take(160).collect::<String>());
        }
        for b in &bad {
            println!("ORACLE {}", b);
        }
        return;
    }
    let mut evaluations = 0u64;
    let mut ops_out = String::new();
    let mut impl_out = String::new();
    for (version, wide) in [(Version::V3, false), (Version::V4, false), (Version::V3, true)] {
        let (image, streams) = base_image(version, wide);
        let ctl = Ctl::new(true, false);
        let (t0, bad0) = read_workload(&image, &streams, ctl.clone(), None);
        let n = ctl.calls.load(Ordering::SeqCst);
        println!("STAT calls_v{}{} {}", if version == Version::V3 { 3 } else { 4 }, if wide { "_two_fat_sectors" } else { "" }, n);
        for b in bad0 {
            println!("ORACLE fault-free run: {}", b);
        }
        let good = successes(&t0);
        let interrupted = std::cell::Cell::new(0u64);
        let mut run = |a: u64, b: u64, traced: bool| {
            let ctl = Ctl::new(true, false);
            ctl.fail_a.store(a, Ordering::SeqCst);
            ctl.fail_b.store(b, Ordering::SeqCst);
            ctl.kind.store(interrupted.get(), Ordering::SeqCst);
            let kind = [" ", " [kind Interrupted]", " [kind UnexpectedEof]", " [read returns Ok(0)]"][interrupted.get() as usize].trim_end();
            let mut tr = Vec::new();
            let r = catch(|| read_workload(&image, &streams, ctl.clone(), if traced { Some(&mut tr) } else { None }));
            match r {
                Err(m) => println!("ORACLE fault at underlying call {} (and {}){}: panic: {}", a, b as i64, kind, &m[..m.len().min(120)]),
                Ok((t, bad)) => {
                    for x in bad.iter().take(2) {
                        println!("ORACLE fault at underlying call {} (and {}){}: {}", a, b as i64, kind, x);
                    }
                    let s = successes(&t);
                    // an `open` that failed 4 times legitimately ends the run
                    if t.iter().any(|l| l == "open ok") && s != good {
                        let i = s.iter().zip(good.iter()).position(|(x, y)| x != y).unwrap_or(s.len().min(good.len()));
                        println!("ORACLE fault at underlying call {} (and {}){}: result {} differs from the fault-free result: {:?} vs {:?}", a, b as i64, kind, i, s.get(i), good.get(i));
                    }
                }
            }
            tr
        };
        for k in 0..n {
            // the same position once more, the failed read retried at once (no look-back in between)
            {
                let ctl = Ctl::new(true, false);
                ctl.fail_a.store(k, Ordering::SeqCst);
                ctl.plain_retry.store(true, Ordering::SeqCst);
                match catch(|| read_workload(&image, &streams, ctl.clone(), None)) {
                    Err(m) => println!("ORACLE fault at underlying call {} (plain retry): panic: {}", k, &m[..m.len().min(120)]),
                    Ok((t, bad)) => {
                        for x in bad.iter().take(2) {
                            println!("ORACLE fault at underlying call {} (failed read retried at once): {}", k, x);
                        }
                        let s = successes(&t);
                        if t.iter().any(|l| l == "open ok") && s != good {
                            let i = s.iter().zip(good.iter()).position(|(x, y)| x != y).unwrap_or(s.len().min(good.len()));
                            println!("ORACLE fault at underlying call {} (failed read retried at once): result {} differs from the fault-free result: {:?} vs {:?}", k, i, s.get(i), good.get(i));
                        }
                    }
                }
                evaluations += 1;
            }
            let tr = run(k, u64::MAX, true);
            evaluations += 1;
            if !tr.iter().any(|l| l.contains(" F ")) {
                continue;
            }
            let mut skip = false;
            for line in tr {
                if line == "STOP" {
                    skip = true;
                }
                if line.starts_with("new ") {
                    skip = false;
                }
                if skip {
                    continue;
                }
                match line.split_once(" => ") {
                    Some((op, res)) => {
                        writeln!(ops_out, "{}", op).unwrap();
                        writeln!(impl_out, "{}", res).unwrap();
                    }
                    None => {
                        writeln!(ops_out, "{}", line).unwrap();
                        writeln!(impl_out, "unit | {} 0 0 0 {} 0", line.split(' ').nth(3).map(|h| if h == "-" { 0 } else { h.len() / 2 }).unwrap_or(0), real_buf_min()).unwrap();
                    }
                }
            }
        }
        // the same positions with an error of kind `Interrupted`, which `read_exact` retries by itself: the call
        // that was interrupted is repeated by the standard library, and the result must still be the fault-free one
        // … and with kind `UnexpectedEof`, and with a read that returns Ok(0) although data remains: either an error
        // or the fault-free result, never other bytes
        for fault_kind in [1u64, 2, 3] {
            interrupted.set(fault_kind);
            for k in 0..n {
                run(k, u64::MAX, false);
                evaluations += 1;
            }
            for i in 0..(pairs / 4).min(n * n) {
                let (a, b) = (rng.below(n), rng.below(n));
                let _ = i;
                if a < b {
                    run(a, b, false);
                    evaluations += 1;
                }
            }
        }
        interrupted.set(0);
        let total_pairs = if n <= 150 { n * n } else { pairs };
        for i in 0..total_pairs {
            let (a, b) = if n <= 150 { (i / n, i % n) } else { (rng.below(n), rng.below(n)) };
            if a < b {
                run(a, b, false);
                evaluations += 1;
            }
        }
    }
    println!("STAT evaluations {}", evaluations);
    std::fs::write(ops_path, ops_out).unwrap();
    std::fs::write(impl_path, impl_out).unwrap();
}

// ---------------------------------------------------------------------------------------------
// C13: faults in write / seek / flush during a mutating workload

struct WriteRun {
    transcript: Vec<String>,
    bad: Vec<String>,
    trace: Vec<String>,
    /// underlying-call counter at the start and end of the handle script
    handle_phase: (u64, u64),
}

/// A handle with the smallest buffer (1024): writes longer than the buffer flush from inside `write`.
/// Every `write` call is judged on its own: `Ok(k)` = k bytes accepted, `Err` = none of this call's.
fn write_workload_small(version: Version, ctl: Arc<Ctl>) -> WriteRun {
    let mut run = WriteRun { transcript: vec![], bad: vec![], trace: vec![], handle_phase: (0, 0) };
    let fired = |c: &Ctl| c.fired.load(Ordering::SeqCst);
    // creation and the reopen with a small buffer are not under test here: no faults yet
    ctl.count_writes.store(false, Ordering::SeqCst);
    let inner = SharedFile::new(Vec::new());
    let file = FaultyFile { inner: inner.clone(), ctl: ctl.clone(), seek_is_read: false };
    let comp = CompoundFile::create_with_version(version, file).unwrap();
    let file = comp.into_inner();
    let mut comp = OpenOptions::new().max_buffer_size(1024).open_with(file).unwrap();
    comp.create_stream("/old").unwrap().write_all(&pattern(3000, 77)).unwrap();
    let mut s = comp.create_stream("/s").unwrap();
    ctl.count_writes.store(true, Ordering::SeqCst);
    run.handle_phase.0 = ctl.calls.load(Ordering::SeqCst);
    let mut spec: Vec<u8> = Vec::new();
    let mut cursor = 0usize;
    let script: Vec<(&str, usize, u64)> = vec![
        ("write", 3000, 1), ("flush", 0, 0), ("seek", 0, 0), ("write", 2600, 2), ("flush", 0, 0),
        ("seek", 500, 0), ("write", 1200, 3), ("seek", 2900, 0), ("write", 1500, 4), ("flush", 0, 0),
        // reading across window boundaries on the same handle (each refill seeks: a fault position), then writing
        // where the reads ended: a failed refill must not move the handle
        ("seek", 0, 0), ("read", 900, 0), ("read", 900, 0), ("read", 900, 0), ("read", 900, 0), ("write", 300, 5), ("flush", 0, 0),
        ("seek", 3000, 0), ("read", 1000, 0), ("read", 1000, 0), ("write", 100, 6), ("flush", 0, 0),
    ];
    'ops: for (op, n, salt) in script {
        let data = pattern(n, salt);
        let mut off = 0usize;
        let mut tries = 0;
        loop {
            let f0 = fired(&ctl);
            let mut rb = vec![0u8; if op == "read" { n } else { 0 }];
            let r: std::io::Result<usize> = match op {
                "write" => s.write(&data[off..]),
                "read" => s.read(&mut rb),
                "flush" => s.flush().map(|_| 0),
                _ => s.seek(SeekFrom::Start(n as u64)).map(|_| 0),
            };
            let f1 = fired(&ctl);
            match r {
                Ok(k) => {
                    if f1 > f0 {
                        run.bad.push(format!("{} on the small-buffer handle returned Ok although an underlying call failed during it (error swallowed)", op));
                    }
                    match op {
                        "write" => {
                            let end = cursor + k;
                            if spec.len() < end { spec.resize(end, 0); }
                            spec[cursor..end].copy_from_slice(&data[off..off + k]);
                            cursor = end;
                            off += k;
                            if off < data.len() && k > 0 {
                                continue;
                            }
                        }
                        "seek" => cursor = n,
                        "read" => {
                            let end = (cursor + k).min(spec.len());
                            if cursor + k > spec.len() || rb[..k] != spec[cursor..end] {
                                run.bad.push(format!("read on the small-buffer handle returned {} bytes at position {} that are not the stream's (after {} injected fault(s))", k, cursor, f1));
                            }
                            cursor = end;
                        }
                        _ => {
                            if ctl.dirty.load(Ordering::SeqCst) {
                                run.bad.push("flush on the small-buffer handle returned Ok but the underlying file was not flushed after its last write (a write-back underlying file does not have the bytes)".into());
                            }
                            ctl.count_writes.store(false, Ordering::SeqCst);
                            let mut v = Vec::new();
                            let ok = comp.open_stream("/s").and_then(|mut f| f.read_to_end(&mut v)).is_ok();
                            let bytes = inner.snapshot();
                            let mut w = Vec::new();
                            let r2 = CompoundFile::open(std::io::Cursor::new(bytes)).and_then(|mut c| c.open_stream("/s").and_then(|mut f| f.read_to_end(&mut w)));
                            ctl.count_writes.store(true, Ordering::SeqCst);
                            if !ok || v != spec {
                                run.bad.push(format!("flush returned Ok but a fresh handle reads {} bytes (expected {}), first difference at {:?} (small buffer)", v.len(), spec.len(), v.iter().zip(spec.iter()).position(|(a, b)| a != b)));
                            } else if r2.is_err() || w != spec {
                                run.bad.push(format!("flush returned Ok but the file's bytes, reopened, give {} bytes for the stream (expected {}), first difference at {:?} (small buffer)", w.len(), spec.len(), w.iter().zip(spec.iter()).position(|(a, b)| a != b)));
                            }
                        }
                    }
                    run.transcript.push(format!("small {} ok", op));
                    break;
                }
                Err(e) => {
                    run.transcript.push(format!("small {} err {}", op, err_kind(&e)));
                    if ctl.fired.load(Ordering::SeqCst) == 0 {
                        run.bad.push(format!("{} on the small-buffer handle failed ({}) although no fault was ever injected", op, err_kind(&e)));
                    }
                    tries += 1;
                    if tries >= 3 {
                        break 'ops;
                    }
                }
            }
        }
    }
    let _ = s.flush();
    drop(s);
    run.handle_phase.1 = ctl.calls.load(Ordering::SeqCst);
    let _ = comp.walk().count();
    run
}

fn write_workload(version: Version, ctl: Arc<Ctl>) -> WriteRun {
    if ctl.small_buffer.load(Ordering::SeqCst) {
        return write_workload_small(version, ctl);
    }
    let mut run = WriteRun { transcript: vec![], bad: vec![], trace: vec![], handle_phase: (0, 0) };
    let fired = |c: &Ctl| c.fired.load(Ordering::SeqCst);
    // --- create (retried from scratch) ---
    let mut comp = None;
    let mut shared = None;
    for _ in 0..3 {
        let inner = SharedFile::new(Vec::new());
        let file = FaultyFile { inner: inner.clone(), ctl: ctl.clone(), seek_is_read: false };
        let f0 = fired(&ctl);
        match CompoundFile::create_with_version(version, file) {
            Ok(c) => {
                if fired(&ctl) > f0 {
                    run.bad.push("create returned Ok although an underlying call failed during it".into());
                }
                comp = Some(c);
                shared = Some(inner);
                run.transcript.push("create ok".into());
                break;
            }
            Err(_) => {
                if fired(&ctl) == f0 {
                    run.bad.push("create failed although no fault was injected".into());
                }
                run.transcript.push("create err".into());
            }
        }
    }
    let Some(mut comp) = comp else { return run };
    let _shared = shared;
    let any_fault_so_far = |c: &Ctl| c.fired.load(Ordering::SeqCst) > 0;
    // a structural call: Ok with a fired fault = swallowed; Err without any fault ever = spurious
    macro_rules! call {
        ($name:expr, $e:expr) => {{
            let mut result = None;
            for attempt in 0..2 {
                let f0 = fired(&ctl);
                let r = $e;
                let f1 = fired(&ctl);
                match &r {
                    Ok(_) => {
                        if f1 > f0 {
                            run.bad.push(format!("{} returned Ok although an underlying write/seek/flush failed during it (error swallowed)", $name));
                        }
                        if $name.contains("flush") && ctl.dirty.load(Ordering::SeqCst) {
                            run.bad.push(format!("{} returned Ok but the underlying file was not flushed after its last write", $name));
                        }
                        run.transcript.push(format!("{} ok", $name));
                        result = r.ok();
                        break;
                    }
                    Err(e) => {
                        if !any_fault_so_far(&ctl) {
                            run.bad.push(format!("{} failed ({}) although no fault was ever injected", $name, err_kind(e)));
                        }
                        run.transcript.push(format!("{} err {} (attempt {})", $name, err_kind(e), attempt));
                        if f1 == f0 {
                            break; // a later call failing after an earlier structural failure: allowed
                        }
                    }
                }
            }
            result
        }};
    }
    call!("create_storage /a", comp.create_storage("/a"));
    // a bystander with known content: overwritten in place after the traced handle's script (see below)
    let fk = fired(&ctl);
    let keep_ok = match call!("create_stream /keep", comp.create_stream("/keep")) {
        Some(mut k) => call!("write+flush /keep", k.write_all(&pattern(2000, 42)).and_then(|_| k.flush())).is_some(),
        None => false,
    } && fired(&ctl) == fk; // (a retried write_all has appended twice: the content is only known when nothing failed here)
    // --- the traced handle ---
    if let Some(mut s) = call!("create_stream /a/s1", comp.create_stream("/a/s1")) {
        let only_handle_failures = true; let _ = any_fault_so_far(&ctl);
        run.handle_phase.0 = ctl.calls.load(Ordering::SeqCst);
        let mut spec: Vec<u8> = Vec::new();
        let mut cursor = 0usize;
        run.trace.push(format!("new {} {} -", if version == Version::V3 { 3 } else { 4 }, 1 << 20));
        let script: Vec<(&str, usize, u64)> = vec![
            ("write", 100, 1), ("flush", 0, 0), ("write", 5000, 2), ("flush", 0, 0), ("seek", 0, 0), ("write", 10, 3), ("flush", 0, 0),
            ("write", 3000, 4), ("seek", 50, 0), ("write", 4000, 5), ("flush", 0, 0),
            ("setlen", 200, 0), ("flush", 0, 0), ("setlen", 9000, 0), ("seek", 8000, 0), ("write", 2000, 6), ("flush", 0, 0), ("setlen", 0, 0), ("write", 64, 7), ("flush", 0, 0),
        ];
        let mut model_alive = true;
        // after a failed set_len the stream's content is unspecified (a half-done structural
        // change): the durability oracle stops judging this handle (no panic / no hang still holds)
        let mut spec_valid = true;
        for (op, n, salt) in script {
            for attempt in 0..2 {
                let f0 = fired(&ctl);
                let data = pattern(n, salt);
                let r: std::io::Result<()> = match op {
                    "write" => s.write_all(&data),
                    "flush" => s.flush(),
                    "seek" => s.seek(SeekFrom::Start(n as u64)).map(|_| ()),
                    _ => s.set_len(n as u64),
                };
                let f1 = fired(&ctl);
                let st = s.verif_state();
                if r.is_err() && f1 == f0 {
                    // failing without a fault in this call: an earlier failure left the structures
                    // half-updated; the handle-level model (whose store fails cleanly) no longer applies
                    model_alive = false;
                }
                if model_alive {
                    let line = match op {
                        "write" => format!("writeall {}", hex(&data)),
                        "flush" => "flush".to_string(),
                        "seek" => format!("seek start {}", n),
                        _ => format!("setlen {}", n),
                    };
                    let phase = if r.is_err() && f1 > f0 { if st.7 { " F flush" } else { " F resize" } } else { "" };
                    run.trace.push(format!("{}{} => {} | {} {} {} {} {} {}", line, phase, if r.is_ok() { "ok" } else { "ioerr" }, st.1, st.2, st.3, st.4, st.5, st.7 as u8));
                    if r.is_err() && op == "setlen" && !st.7 {
                        model_alive = false; // a half-done resize is outside the handle model
                    }
                    if r.is_err() && op == "write" {
                        model_alive = false; // write_all may have accepted a prefix before the failure
                    }
                }
                match r {
                    Ok(()) => {
                        if f1 > f0 {
                            run.bad.push(format!("{} on the handle returned Ok although an underlying call failed during it (error swallowed)", op));
                        }
                        match op {
                            "write" => {
                                let end = cursor + n;
                                if spec.len() < end { spec.resize(end, 0); }
                                spec[cursor..end].copy_from_slice(&data);
                                cursor = end;
                            }
                            "seek" => cursor = n,
                            "setlen" => { spec.resize(n, 0); cursor = cursor.min(n); }
                            _ => {
                                // flush returned Ok: the underlying file has been flushed after its last write
                                if ctl.dirty.load(Ordering::SeqCst) {
                                    run.bad.push("flush on the handle returned Ok but the underlying file was not flushed after its last write (a write-back underlying file does not have the bytes)".into());
                                }
                                // flush returned Ok: every accepted byte must be read back by a fresh handle
                                let mut v = Vec::new();
                                // the oracle's own read-back must not consume the injected fault
                                ctl.count_writes.store(false, Ordering::SeqCst);
                                let ok = comp.open_stream("/a/s1").and_then(|mut f| f.read_to_end(&mut v)).is_ok();
                                ctl.count_writes.store(true, Ordering::SeqCst);
                                if spec_valid && (!ok || v != spec) {
                                    run.bad.push(format!("flush returned Ok but a fresh handle reads {} bytes (expected {}), first difference at {:?}", v.len(), spec.len(), v.iter().zip(spec.iter()).position(|(a, b)| a != b)));
                                }
                                // "is in the compound file": the same through the bytes alone, as long as
                                // only handle writes/flushes have failed so far (a failed structural call or
                                // set_len may legitimately leave the file half-updated)
                                if spec_valid && only_handle_failures {
                                    let bytes = _shared.as_ref().unwrap().snapshot();
                                    let mut w = Vec::new();
                                    let r = CompoundFile::open(std::io::Cursor::new(bytes)).and_then(|mut c| c.open_stream("/a/s1").and_then(|mut f| f.read_to_end(&mut w)));
                                    if r.is_err() || w != spec {
                                        run.bad.push(format!("flush returned Ok but the file's bytes, reopened, give {} for the stream (expected {} bytes), first difference at {:?}",
                                            match &r { Ok(_) => format!("{} bytes", w.len()), Err(e) => format!("error {}", err_kind(e)) }, spec.len(), w.iter().zip(spec.iter()).position(|(a, b)| a != b)));
                                    }
                                }
                            }
                        }
                        run.transcript.push(format!("h {} ok", op));
                        break;
                    }
                    Err(e) => {
                        if !any_fault_so_far(&ctl) {
                            run.bad.push(format!("{} on the handle failed ({}) although no fault was ever injected", op, err_kind(&e)));
                        }
                        run.transcript.push(format!("h {} err (attempt {})", op, attempt));
                        if op == "setlen" {
                            spec_valid = false;
                        }
                        if op == "write" {
                            // write_all may have accepted a prefix: resynchronise the oracle's view
                            let (_, total, off, pos, ..) = s.verif_state();
                            let _ = (total, off, pos);
                            // accepted bytes are unknown in number; give up exact tracking for this run
                            spec.clear();
                            let _ = s.set_len(0);
                            let _ = s.flush();
                            cursor = 0;
                            model_alive = false;
                            break;
                        }
                        if f1 == f0 {
                            break;
                        }
                    }
                }
            }
        }
        let _ = s.flush();
        drop(s);
        run.handle_phase.1 = ctl.calls.load(Ordering::SeqCst);
    }
    // --- whatever failed above: a flush on ANOTHER handle that returns Ok is durable too.  An overwrite in place
    // needs no new sector, so it succeeds even when an earlier failure left the allocator unable to grow the
    // file; the bytes alone must then reopen and hold it.
    if keep_ok {
        let f0 = fired(&ctl);
        let r = comp.open_stream("/keep").and_then(|mut k| {
            k.seek(SeekFrom::Start(100))?;
            k.write_all(&pattern(10, 43))?;
            k.flush()
        });
        if r.is_ok() && fired(&ctl) == f0 {
            let mut want = pattern(2000, 42);
            want[100..110].copy_from_slice(&pattern(10, 43));
            ctl.count_writes.store(false, Ordering::SeqCst);
            let bytes = _shared.as_ref().unwrap().snapshot();
            let mut w = Vec::new();
            let r2 = CompoundFile::open(std::io::Cursor::new(bytes)).and_then(|mut c| c.open_stream("/keep").and_then(|mut f| f.read_to_end(&mut w)));
            ctl.count_writes.store(true, Ordering::SeqCst);
            if r2.is_err() || w != want {
                run.bad.push(format!("an in-place overwrite of another stream and its flush returned Ok, but the file's bytes, reopened, give {} for that stream (expected {} bytes)",
                    match &r2 { Ok(_) => format!("{} bytes, first difference at {:?}", w.len(), w.iter().zip(want.iter()).position(|(a, b)| a != b)), Err(e) => format!("error {}", err_kind(e)) }, want.len()));
            }
            run.transcript.push("overwrite /keep ok".into());
        } else {
            run.transcript.push("overwrite /keep err".into());
        }
    }
    // --- grow the directory, remove, recreate ---
    for i in 0..12 {
        let p = format!("/f{}", i);
        if let Some(mut s) = call!(&format!("create_stream {}", p), comp.create_stream(&p)) {
            let _ = call!("write+flush", s.write_all(&pattern(10 + i * 120, i as u64)).and_then(|_| s.flush()));
        }
    }
    call!("remove_stream /f3", comp.remove_stream("/f3"));
    call!("remove_stream /f9", comp.remove_stream("/f9"));
    call!("create_storage_all /x/y/z", comp.create_storage_all("/x/y/z"));
    call!("remove_storage_all /x", comp.remove_storage_all("/x"));
    call!("set_state_bits /a", comp.set_state_bits("/a", 5));
    call!("flush", comp.flush());
    // whatever happened, walking the live object must not panic
    let _ = comp.walk().count();
    run
}

/// C13, structural calls that the library orders so that a failure can only leak space (cut the chain first,
/// then free; allocate first, then link): a fault at every underlying call position inside ONE resize of a
/// regular stream, the call retried, another stream written and flushed in between.  Whatever the
/// failed call left behind, a flush that returns Ok afterwards is durable: at the end both streams are
/// read through fresh handles and through the reopened bytes.
fn resize_under_fault(version: Version, from: usize, to: usize, k: Option<u64>) -> (u64, Vec<String>) {
    let ctl = Ctl::new(false, true);
    ctl.count_writes.store(false, Ordering::SeqCst);
    let inner = SharedFile::new(Vec::new());
    let file = FaultyFile { inner: inner.clone(), ctl: ctl.clone(), seek_is_read: false };
    let mut bad = Vec::new();
    let mut comp = CompoundFile::create_with_version(version, file).unwrap();
    let a = pattern(from, 41);
    let b = pattern(6000, 42);
    let mut s = comp.create_stream("/a").unwrap();
    s.write_all(&a).unwrap();
    s.flush().unwrap();
    // the resize under fault
    ctl.count_writes.store(true, Ordering::SeqCst);
    if let Some(k) = k {
        ctl.fail_a.store(k, Ordering::SeqCst);
    }
    let first = s.set_len(to as u64);
    let n_calls = ctl.calls.load(Ordering::SeqCst);
    ctl.count_writes.store(false, Ordering::SeqCst);
    if first.is_ok() && ctl.fired.load(Ordering::SeqCst) > 0 {
        bad.push("set_len returned Ok although an underlying call failed during it (error swallowed)".to_string());
    }
    // another stream in between (no faults any more)
    let b_ok = comp.create_stream("/b").and_then(|mut t| { t.write_all(&b)?; t.flush() }).is_ok();
    // the retry, and a flush
    let second = if first.is_err() { s.set_len(to as u64) } else { Ok(()) };
    let a_ok = second.is_ok() && s.flush().is_ok();
    drop(s);
    let mut want_a = a.clone();
    want_a.resize(to, 0);
    let read = |c: &mut dyn FnMut(&str) -> std::io::Result<Vec<u8>>, what: &str, bad: &mut Vec<String>| {
        if b_ok {
            match c("/b") {
                Ok(v) if v == b => {}
                Ok(v) => bad.push(format!("the other stream's flush returned Ok but {} gives {} bytes (expected {}), first difference at {:?}", what, v.len(), b.len(), v.iter().zip(b.iter()).position(|(x, y)| x != y))),
                Err(e) => bad.push(format!("the other stream's flush returned Ok but {} cannot read it: {}", what, err_kind(&e))),
            }
        }
        if a_ok {
            match c("/a") {
                Ok(v) if v == want_a => {}
                Ok(v) => bad.push(format!("set_len (retried) and flush returned Ok but {} gives {} bytes for the resized stream (expected {}), first difference at {:?}", what, v.len(), want_a.len(), v.iter().zip(want_a.iter()).position(|(x, y)| x != y))),
                Err(e) => bad.push(format!("set_len (retried) and flush returned Ok but {} cannot read the resized stream: {}", what, err_kind(&e))),
            }
        }
    };
    read(&mut |p| { let mut v = Vec::new(); comp.open_stream(p).and_then(|mut f| f.read_to_end(&mut v))?; Ok(v) }, "a fresh handle", &mut bad);
    let bytes = inner.snapshot();
    match CompoundFile::open(std::io::Cursor::new(bytes)) {
        Ok(mut c2) => read(&mut |p| { let mut v = Vec::new(); c2.open_stream(p).and_then(|mut f| f.read_to_end(&mut v))?; Ok(v) }, "the reopened file", &mut bad),
        Err(e) => if a_ok || b_ok { bad.push(format!("flushes returned Ok but the file's bytes do not reopen: {}", err_kind(&e))) },
    }
    (n_calls, bad)
}

fn structural_campaign() -> u64 {
    let mut evaluations = 0;
    for version in [Version::V3, Version::V4] {
        // shrink within the regular range (free_chain_after), grow (extend_chain), both in whole sectors and not
        // … and across the point where the FAT itself has to grow (version 3: the 128th sector): append_fat_sector's
        // own writes (the new FAT sector, its cell, the header's DIFAT slot and count) are fault positions too
        for (from, to) in [(9000usize, 5000usize), (20000, 4096), (16384, 8192), (5000, 9000), (4096, 30000), (5000, 70000), (60000, 66000)] {
            let (n, bad0) = resize_under_fault(version, from, to, None);
            for b in bad0 {
                println!("ORACLE resize {}->{} (V{}) without any fault: {}", from, to, if version == Version::V3 { 3 } else { 4 }, b);
            }
            for k in 0..n {
                evaluations += 1;
                let (tx, rx) = std::sync::mpsc::channel();
                std::thread::spawn(move || {
                    let r = catch(|| resize_under_fault(version, from, to, Some(k)));
                    let _ = tx.send(r);
                });
                let v = if version == Version::V3 { 3 } else { 4 };
                if HANGS_SEEN.load(Ordering::SeqCst) >= 3 {
                    break;
                }
                match rx.recv_timeout(std::time::Duration::from_secs(20)) {
                    Err(_) => { HANGS_SEEN.fetch_add(1, Ordering::SeqCst); println!("ORACLE set_len {}->{} (V{}) with a fault at its underlying write/seek/flush call {}: no progress within 20 s (hang)", from, to, v, k) }
                    Ok(Err(m)) => println!("ORACLE set_len {}->{} (V{}) with a fault at its underlying write/seek/flush call {}: panic: {}", from, to, v, k, m.chars().take(160).collect::<String>()),
                    Ok(Ok((_, bad))) => {
                        for b in bad.iter().take(2) {
                            println!("ORACLE set_len {}->{} (V{}) with a fault at its underlying write/seek/flush call {}, retried, another stream written in between: {}", from, to, v, k, b);
                        }
                    }
                }
            }
        }
    }
    evaluations
}

pub fn write_campaign(seed: u64, max_runs: u64, ops_path: &str, impl_path: &str) {
    let mut rng = Rng::new(seed);
    if let Ok(k) = std::env::var("VERIF_DEBUG_K") {
        // replay of one fault position: print the transcript
        let version = if std::env::var("VERIF_DEBUG_V").as_deref() == Ok("4") { Version::V4 } else { Version::V3 };
        let ctl = Ctl::new(false, true);
        ctl.fail_a.store(k.parse().unwrap(), Ordering::SeqCst);
        let r = write_workload(version, ctl);
        for l in &r.transcript {
            println!("T {}", l);
        }
        for b in &r.bad {
            println!("ORACLE {}", b);
        }
        return;
    }
    let mut ops_out = String::new();
    let mut impl_out = String::new();
    let mut evaluations = 0u64;
    // VERIF_PART=i/n: this process takes every fault position k with k % n == i — all of them, no sampling
    // (the check runs n processes side by side)
    let part: Option<(u64, u64)> = std::env::var("VERIF_PART").ok().and_then(|v| {
        let (a, b) = v.split_once('/')?;
        Some((a.parse().ok()?, b.parse().ok()?))
    });
    for (version, small) in [(Version::V3, false), (Version::V4, false), (Version::V3, true), (Version::V4, true)] {
        let ctl = Ctl::new(false, true);
        ctl.small_buffer.store(small, Ordering::SeqCst);
        let r0 = write_workload(version, ctl.clone());
        let n = ctl.calls.load(Ordering::SeqCst);
        println!("STAT wcalls_v{}{} {}", if version == Version::V3 { 3 } else { 4 }, if small { "_small_buffer" } else { "" }, n);
        for b in &r0.bad {
            println!("ORACLE fault-free run: {}", b);
        }
        let mut keep = |trace: &Vec<String>| {
            for line in trace {
                match line.split_once(" => ") {
                    Some((op, res)) => {
                        writeln!(ops_out, "{}", op).unwrap();
                        writeln!(impl_out, "{}", res).unwrap();
                    }
                    None => {
                        writeln!(ops_out, "{}", line).unwrap();
                        writeln!(impl_out, "unit | 0 0 0 0 {} 0", real_buf_min()).unwrap();
                    }
                }
            }
        };
        if part.map(|p| p.0 == 0).unwrap_or(true) {
            keep(&r0.trace);
        }
        // every position when affordable; else every position inside the handle script (where a
        // failed flush is retried and judged for durability), a stride through the rest, and random ones
        let positions: Vec<u64> = if let Some((i, m)) = part {
            (0..n).filter(|k| k % m.max(1) == i).collect()
        } else if n <= max_runs {
            (0..n).collect()
        } else {
            let mut v: Vec<u64> = (r0.handle_phase.0..r0.handle_phase.1).collect();
            let stride = (n / (max_runs * 2 / 3).max(1)).max(1);
            v.extend((0..n).step_by(stride as usize).filter(|k| *k < r0.handle_phase.0 || *k >= r0.handle_phase.1));
            let target = v.len() as u64 + max_runs / 3;
            while (v.len() as u64) < target {
                v.push(rng.below(n));
            }
            v
        };
        println!("STAT positions_v{}{} {}", if version == Version::V3 { 3 } else { 4 }, if small { "_small_buffer" } else { "" }, positions.len());
        for k in positions {
            let ctl = Ctl::new(false, true);
            ctl.small_buffer.store(small, Ordering::SeqCst);
            ctl.fail_a.store(k, Ordering::SeqCst);
            let (tx, rx) = std::sync::mpsc::channel();
            let c2 = ctl.clone();
            std::thread::spawn(move || {
                let r = catch(|| write_workload(version, c2));
                let _ = tx.send(r.map(|r| (r.bad, r.trace)));
            });
            evaluations += 1;
            if HANGS_SEEN.load(Ordering::SeqCst) >= 3 {
                break; // three runs that never came back are a verdict; every further one costs 20 s
            }
            match rx.recv_timeout(std::time::Duration::from_secs(20)) {
                Err(_) => { HANGS_SEEN.fetch_add(1, Ordering::SeqCst); println!("ORACLE fault at underlying write/seek/flush call {}: no progress within 20 s (hang)", k) }
                Ok(Err(m)) => println!("ORACLE fault at underlying write/seek/flush call {}: panic: {}", k, m.chars().take(160).collect::<String>()),
                Ok(Ok((bad, trace))) => {
                    for b in bad.iter().take(2) {
                        println!("ORACLE fault at underlying write/seek/flush call {}: {}", k, b);
                    }
                    if trace.iter().any(|l| l.contains(" F ")) {
                        keep(&trace);
                    }
                }
            }
        }
    }
    if part.map(|p| p.0 == 0).unwrap_or(true) {
        let structural = structural_campaign();
        println!("STAT structural_resizes {}", structural);
        evaluations += structural;
    }
    println!("STAT evaluations {}", evaluations);
    std::fs::write(ops_path, ops_out).unwrap();
    std::fs::write(impl_path, impl_out).unwrap();
}


// ------------------------------------------------------------------------------------------
// C17: a setter that returned Ok — possibly as the retry of an attempt that failed on a transient
// write/seek fault — has set the value: it is returned by lookups at once and after reopening

fn meta_values(comp: &mut CompoundFile<FaultyFile>, path: &str) -> Option<(u32, [u8; 16], u64, u64)> {
    comp.entry(path).ok().map(|e| {
        (e.state_bits(), *e.clsid().as_bytes(), cfb::verif::timestamp_from_system_time(e.created()), cfb::verif::timestamp_from_system_time(e.modified()))
    })
}

pub fn meta_campaign() {
    let mut evaluations = 0u64;
    let t1 = cfb::verif::system_time_from_timestamp(131_000_000_123_456_789);
    let t2 = cfb::verif::system_time_from_timestamp(99_999_999_999_999_999);
    let clsid = uuid::Uuid::from_bytes([1, 2, 3, 4, 5, 6, 7, 8, 9, 10, 11, 12, 13, 14, 15, 16]);
    // (name, path, setter index)
    let setters: Vec<(&str, &str, u8)> = vec![
        ("set_state_bits", "/a", 0), ("set_state_bits", "/a/s", 0), ("set_state_bits", "/", 0), ("set_state_bits", "/b/c", 0),
        ("set_storage_clsid", "/a", 1), ("set_storage_clsid", "/", 1), ("set_storage_clsid", "/b/c", 1),
        ("set_created_time", "/a", 2), ("set_created_time", "/", 2), ("set_modified_time", "/a", 3), ("set_modified_time", "/", 3),
        ("set_modified_time", "/b/c", 3),
    ];
    for version in [Version::V3, Version::V4] {
        for (name, path, which) in &setters {
            // fault-free: how many underlying write-side calls does the setter make?
            let mut n_calls = 0u64;
            let mut k = 0u64;
            loop {
                let ctl = Ctl::new(false, true);
                ctl.count_writes.store(false, Ordering::SeqCst);
                let inner = SharedFile::new(Vec::new());
                let file = FaultyFile { inner: inner.clone(), ctl: ctl.clone(), seek_is_read: false };
                let mut comp = CompoundFile::create_with_version(version, file).unwrap();
                comp.create_storage("/a").unwrap();
                comp.create_stream("/a/s").unwrap().write_all(&pattern(300, 3)).unwrap();
                comp.create_storage_all("/b/c").unwrap();
                for q in ["/x1", "/x2", "/x3"] {
                    comp.create_stream(q).unwrap();
                }
                let before = meta_values(&mut comp, path).unwrap();
                ctl.count_writes.store(true, Ordering::SeqCst);
                ctl.fail_a.store(if n_calls == 0 { u64::MAX } else { k }, Ordering::SeqCst);
                let apply = |comp: &mut CompoundFile<FaultyFile>| -> io::Result<()> {
                    match which {
                        0 => comp.set_state_bits(path, 0xDEAD_BEEF),
                        1 => comp.set_storage_clsid(path, clsid),
                        2 => comp.set_created_time(path, t1),
                        _ => comp.set_modified_time(path, t2),
                    }
                };
                let mut result = None;
                let mut transcript = Vec::new();
                for _attempt in 0..3 {
                    let r = catch(|| apply(&mut comp));
                    match r {
                        Err(m) => { println!("ORACLE {} {} (V{}) fault at underlying call {}: panic {}", name, path, if version == Version::V3 { 3 } else { 4 }, k, m.chars().take(120).collect::<String>()); break; }
                        Ok(Ok(())) => { transcript.push("ok"); result = Some(()); break; }
                        Ok(Err(_)) => transcript.push("err"),
                    }
                }
                ctl.count_writes.store(false, Ordering::SeqCst);
                if n_calls == 0 {
                    n_calls = ctl.calls.load(Ordering::SeqCst).max(1);
                    if result.is_none() {
                        println!("ORACLE {} {}: failed without any fault", name, path);
                        break;
                    }
                    continue; // now enumerate k = 0 .. n_calls
                }
                evaluations += 1;
                if result.is_some() {
                    let want = {
                        let mut w = before;
                        match which {
                            0 => w.0 = 0xDEAD_BEEF,
                            1 => w.1 = *clsid.as_bytes(),
                            2 => w.2 = 131_000_000_123_456_789,
                            _ => w.3 = 99_999_999_999_999_999,
                        }
                        // streams keep a nil CLSID and zero times whatever is set
                        if *path == "/a/s" { w.2 = 0; w.3 = 0; }
                        w
                    };
                    let live = meta_values(&mut comp, path);
                    if live != Some(want) {
                        println!("ORACLE {} {} (V{}): a fault at underlying call {} then a retry that returned Ok ({}): entry() shows {:?}, expected {:?}", name, path, if version == Version::V3 { 3 } else { 4 }, k, transcript.join(","), live, want);
                    }
                    let bytes = inner.snapshot();
                    let re = CompoundFile::open(std::io::Cursor::new(bytes)).ok().and_then(|c| c.entry(path).ok()).map(|e| {
                        (e.state_bits(), *e.clsid().as_bytes(), cfb::verif::timestamp_from_system_time(e.created()), cfb::verif::timestamp_from_system_time(e.modified()))
                    });
                    if re != Some(want) {
                        println!("ORACLE {} {} (V{}): a fault at underlying call {} then a retry that returned Ok ({}): after reopening the bytes the entry shows {:?}, expected {:?}", name, path, if version == Version::V3 { 3 } else { 4 }, k, transcript.join(","), re, want);
                    }
                }
                k += 1;
                if k >= n_calls {
                    break;
                }
            }
        }
    }
    println!("STAT evaluations {}", evaluations);
}

/// The buffer size a fresh handle really starts with when the smallest maximum is asked for (the
/// crate's minimum, whatever the source says it is today): read off a real handle through hook H1.
pub fn real_buf_min() -> usize {
    static MIN: std::sync::OnceLock<usize> = std::sync::OnceLock::new();
    *MIN.get_or_init(|| {
        let comp = cfb::CompoundFile::create(std::io::Cursor::new(Vec::new())).unwrap();
        let file = comp.into_inner();
        let mut comp = OpenOptions::new().max_buffer_size(1).open_with(file).unwrap();
        let st = comp.create_stream("/probe").unwrap();
        st.verif_state().5
    })
}
