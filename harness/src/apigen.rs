//! Generators and campaigns over the API engine (C01 and the properties that share it).
use crate::api::*;
use crate::names::{enc, gen_name};
use crate::util::*;
use std::fmt::Write as _;

pub const SIZES_V3: &[usize] = &[0, 1, 63, 64, 65, 127, 128, 500, 511, 512, 513, 1024, 4095, 4096, 4097, 4608, 5000, 8191, 8192, 8193, 20000];

pub struct GenCfg {
    pub names_valid_only: bool,
    pub reopen_pct: u64,
    pub max_depth: usize,
    pub handle_ops: bool,
    pub meta_ops: bool,
    pub refusal_bias: bool,
    pub meta_heavy: bool,
}

/// A pool of names for one history: a few base names plus case variants and near misses.
pub fn name_pool(rng: &mut Rng, valid_only: bool) -> Vec<String> {
    let mut pool: Vec<String> = Vec::new();
    let n = 3 + rng.below(10) as usize;
    while pool.len() < n {
        let nm = match rng.below(6) {
            0 | 1 => rng.pick(&["a", "b", "c", "d", "e", "f", "g", "A", "B", "ab", "Ab", "aB", "abc", "x", "y", "Z"]).to_string(),
            2 => format!("{}{}", rng.pick(&["s", "S", "dir", "Dir", "stream"]), rng.below(4)),
            _ => gen_name(rng),
        };
        if nm.is_empty() || nm == "." || nm == ".." || nm.contains('/') {
            continue;
        }
        if valid_only && !valid_name(&nm) {
            continue;
        }
        pool.push(nm);
    }
    // case variants of some
    for i in 0..pool.len().min(4) {
        let v = pool[i].chars().map(|c| if rng.chance(1, 2) { crate::names::spec_upper(c) } else { c }).collect::<String>();
        if v != pool[i] {
            pool.push(v);
        }
    }
    pool
}

fn spell(rng: &mut Rng, canon: &[String]) -> String {
    // a spelling of the path: leading/trailing slashes, `.`, resolvable `..`
    let mut s = String::new();
    if rng.chance(4, 5) {
        s.push('/');
    }
    for (i, n) in canon.iter().enumerate() {
        if rng.chance(1, 12) {
            s.push_str("./");
        }
        if rng.chance(1, 15) {
            s.push_str("zz/../");
        }
        s.push_str(n);
        if i + 1 < canon.len() {
            s.push('/');
            if rng.chance(1, 20) {
                s.push('/');
            }
        }
    }
    if rng.chance(1, 8) {
        s.push('/');
    }
    if s.is_empty() {
        s.push('/');
    }
    s
}

pub fn gen_path(rng: &mut Rng, model: &RefModel, pool: &[String], cfg: &GenCfg, want: u64) -> String {
    // want: 0 = any, 1 = existing stream, 2 = existing storage, 3 = fresh child of an existing storage
    let all = model.all_paths();
    let pick_existing = |rng: &mut Rng, stream: Option<bool>| -> Option<Vec<String>> {
        let c: Vec<&(String, bool)> = all.iter().filter(|(_, s)| stream.map(|x| x == *s).unwrap_or(true)).collect();
        if c.is_empty() {
            None
        } else {
            chain_of(&rng.pick(&c).0)
        }
    };
    let canon: Vec<String> = match want {
        1 => pick_existing(rng, Some(true)),
        2 => if rng.chance(1, 4) { Some(vec![]) } else { pick_existing(rng, Some(false)) },
        3 => {
            let mut parent = if rng.chance(1, 2) { vec![] } else { pick_existing(rng, Some(false)).unwrap_or_default() };
            if parent.len() >= cfg.max_depth {
                parent.truncate(cfg.max_depth - 1);
            }
            parent.push(rng.pick(pool).clone());
            Some(parent)
        }
        4 => pick_existing(rng, Some(true)).map(|mut p| {
            p.push(rng.pick(pool).clone());
            p
        }),
        _ => None,
    }
    .unwrap_or_else(|| {
        let d = 1 + rng.below(cfg.max_depth as u64) as usize;
        (0..d).map(|_| rng.pick(pool).clone()).collect()
    });
    // occasionally change the case of a component (same object) or escape the root
    let mut canon = canon;
    if !canon.is_empty() && rng.chance(1, 6) {
        let i = rng.below(canon.len() as u64) as usize;
        canon[i] = canon[i].chars().map(|c| if rng.chance(1, 2) { crate::names::spec_upper(c) } else { c }).collect();
    }
    if rng.chance(1, 60) {
        return "../x".to_string();
    }
    spell(rng, &canon)
}

pub fn gen_op(rng: &mut Rng, model: &RefModel, pool: &[String], cfg: &GenCfg, sizes: &[usize], salt: u64) -> String {
    let e = |s: &str| enc(s);
    let w = if cfg.meta_heavy && rng.chance(1, 2) { 88 + rng.below(10) } else { rng.below(100) };
    let refusal = cfg.refusal_bias && rng.chance(2, 5);
    let pe = |rng: &mut Rng, want: u64| e(&gen_path(rng, model, pool, cfg, want));
    match w {
        0..=11 => {
            let want = if refusal { *rng.pick(&[0, 1, 2, 4]) } else if rng.chance(1, 25) { 4 } else { 3 };
            format!("mkdir {}", pe(rng, want))
        }
        12..=15 => format!("mkdirs {}", pe(rng, if refusal { 1 } else { 0 })),
        16..=31 => {
            // (sometimes a storage or the root itself: must be refused)
            let want = if rng.chance(1, 16) { 2 } else if rng.chance(1, 3) { 1 } else if rng.chance(1, 25) { 4 } else { 3 };
            format!("put {} {}", pe(rng, want), hex(&pattern(*rng.pick(sizes), salt)))
        }
        32..=34 => {
            let want = if rng.chance(1, 10) { 2 } else if rng.chance(1, 2) { 1 } else { 3 };
            format!("mkstream {}", pe(rng, want))
        }
        35..=37 => format!("mknew {}", pe(rng, if refusal { 1 } else { 3 })),
        38..=47 => format!("rm {}", pe(rng, if refusal { 2 } else { 1 })),
        48..=53 => format!("rmdir {}", pe(rng, if refusal { 0 } else { 2 })),
        54..=56 => format!("rmall {}", pe(rng, 2)),
        57..=62 => {
            let want = if rng.chance(1, 8) { 2 } else { 1 };
            format!("get {}", pe(rng, want))
        }
        63..=64 => {
            let want = *rng.pick(&[0, 1, 2, 2]);
            format!("open {}", pe(rng, want))
        }
        65..=68 => format!("exists {}", pe(rng, 0)),
        69 => format!("isstream {}", pe(rng, 0)),
        70 => format!("isstorage {}", pe(rng, 0)),
        71..=74 => format!("entry {}", pe(rng, 0)),
        75..=79 => format!("ls {}", pe(rng, 2)),
        80 => "lsroot".to_string(),
        81..=84 => "walk".to_string(),
        85..=86 => format!("walkfrom {}", pe(rng, 0)),
        87 => "rootentry".to_string(),
        88..=97 if cfg.meta_ops => match rng.below(4) {
            0 => {
                let want = *rng.pick(&[0, 1, 2, 2]);
                format!("setbits {} {}", pe(rng, want), rng.next() as u32)
            }
            // a quarter of the CLSIDs are nil: "set what is already there" on a stream is still refused
            1 => format!("setclsid {} {}", pe(rng, if refusal { 1 } else { 2 }), if rng.chance(1, 4) { "00".repeat(16) } else { hex(&rng.next().to_le_bytes().iter().chain(rng.next().to_le_bytes().iter()).cloned().collect::<Vec<u8>>()) }),
            2 => {
                let want = *rng.pick(&[0, 1, 2, 2]);
                format!("setctime {} {} {}", pe(rng, want), rng.below(4_000_000_000) as i64 - 2_000_000_000, rng.below(1_000_000_000))
            }
            _ => format!("setmtime {} {} {}", pe(rng, 2), *rng.pick(&[0i64, -11644473600, -11644473601, 1833029933770, 1833029933771, i64::MAX, i64::MIN + 1, 1489862796]), *rng.pick(&[0u32, 99, 100, 999999999])),
        },
        _ => format!("get {}", pe(rng, 1)),
    }
}

pub struct Outcome {
    pub ops: u64,
    pub histories: u64,
    pub hist: std::collections::BTreeMap<String, u64>,
    pub distinct: std::collections::HashSet<u64>,
    pub violations: Vec<String>,
}

/// C01-style campaign.  Writes ops and impl (`<result> | <dirtable>`) files.
pub fn campaign(seed: u64, count: u64, max_ops: u64, cfg: &GenCfg, ops_path: &str, impl_path: &str, snapdir: Option<&str>) -> Outcome {
    let mut rng = Rng::new(seed);
    let mut ops_out = String::new();
    let mut impl_out = String::new();
    let mut out = Outcome { ops: 0, histories: 0, hist: Default::default(), distinct: Default::default(), violations: vec![] };
    for h in 0..count {
        let mut r = rng.fork();
        let version = if r.chance(1, 2) { "3" } else { "4" };
        let pool = name_pool(&mut r, cfg.names_valid_only);
        let mut real = Real::new();
        // every fifth history runs with the smallest stream buffer (named in its `create` line): whole-stream writes
        // longer than the buffer then go through the buffer-full path (results must not depend on it, C18)
        let small_buffer = h % 5 == 4;
        let mut model = RefModel::new();
        let n_ops = 1 + r.below(max_ops);
        let mut hash: u64 = 1469598103934665603;
        let mut dead = false;
        for i in 0..=n_ops {
            let line = if i == 0 {
                // one history in four on an underlying file that splits transfers (named in the `create` line)
                match (small_buffer, h % 8) {
                    (true, 7) => format!("create {} 1024 short", version),
                    (true, _) => format!("create {} 1024", version),
                    (false, 3) => format!("create {} - short", version),
                    (false, 6) => format!("create {} - intr", version),
                    _ => format!("create {}", version),
                }
            } else if r.below(100) < cfg.reopen_pct {
                format!("reopen {}", if r.chance(1, 2) { "strict" } else { "permissive" })
            } else if snapdir.is_some() && r.chance(1, 10) {
                format!("snap {}/h{}_{}.cfb", snapdir.unwrap(), h, i)
            } else {
                gen_op(&mut r, &model, &pool, cfg, SIZES_V3, h * 1000 + i)
            };
            for b in line.bytes() {
                hash = (hash ^ b as u64).wrapping_mul(1099511628211);
            }
            let before = if cfg.refusal_bias { Some(real.image()) } else { None };
            let observed = real.exec(&line);
            if let Some(b) = before {
                if is_refusal(&observed) && real.image() != b {
                    out.violations.push(format!("history {} (seed {}) step {}: {} gave {} but the underlying bytes changed", h, seed, i, short(&line), short(&observed)));
                }
            }
            let expected = if line.starts_with("snap ") { Some(model.dump()) } else { model.apply(&line) };
            let kind = line.split(' ').next().unwrap().to_string();
            let okind: String = observed.split(' ').take(if observed.starts_with("err") { 2 } else { 1 }).collect::<Vec<_>>().join(" ");
            *out.hist.entry(format!("{}:{}", kind, okind)).or_insert(0) += 1;
            if let Some(exp) = expected {
                if exp != observed {
                    out.violations.push(format!("history {} (seed {}) step {}: {} gave {} but the abstract tree model says {}", h, seed, i, short(&line), short(&observed), short(&exp)));
                    dead = true;
                }
            }
            if let Some(v) = real.clock_violation.take() {
                out.violations.push(format!("history {} (seed {}) step {}: {} :: {}", h, seed, i, short(&line), v));
            }
            writeln!(ops_out, "{}", line).unwrap();
            writeln!(impl_out, "{} | {}", observed, catch(|| format!("{} | {}", real.dirtable(), real.handle_states())).unwrap_or_else(|_| "- | -".into())).unwrap();
            out.ops += 1;
            if observed == "panic" || dead {
                break;
            }
        }
        out.histories += 1;
        out.distinct.insert(hash);
    }
    std::fs::write(ops_path, ops_out).unwrap();
    std::fs::write(impl_path, impl_out).unwrap();
    out
}

pub fn is_refusal(observed: &str) -> bool {
    matches!(observed, "err notFound" | "err alreadyExists" | "err invalidInput")
}

pub fn short(s: &str) -> String {
    if s.len() > 400 { format!("{}…", s.chars().take(400).collect::<String>()) } else { s.to_string() }
}

/// Replays an ops file (several histories, each starting with `create`).
pub fn replay(ops_path: &str, impl_path: &str) -> Vec<String> {
    let text = std::fs::read_to_string(ops_path).unwrap();
    let mut real = Real::new();
    let mut model = RefModel::new();
    let mut impl_out = String::new();
    let mut violations = Vec::new();
    let mut dead = false;
    let mut open: BTreeMap<u32, String> = BTreeMap::new();
    for (i, line) in text.lines().enumerate() {
        if line.starts_with("create ") {
            dead = false;
        }
        if dead {
            writeln!(impl_out, "skipped | - | -").unwrap();
            continue;
        }
        let before = real.image();
        let observed = real.exec(line);
        if is_refusal(&observed) && real.image() != before {
            violations.push(format!("step {}: {} gave {} but the underlying bytes changed", i, short(line), short(&observed)));
        }
        let expected = if line.starts_with("snap ") { Some(model.dump()) } else { model.apply(line) };
        if let Some(exp) = expected {
            if exp != observed {
                violations.push(format!("step {}: {} gave {} but the abstract tree model says {}", i, short(line), short(&observed), short(&exp)));
                dead = true;
            }
        }
        if let Some(v) = real.clock_violation.take() {
            violations.push(format!("step {}: {} :: {}", i, short(line), v));
        }
        {
            let t: Vec<&str> = line.split(' ').collect();
            match t.as_slice() {
                ["hopen", id, a] | ["hcreate", id, a] | ["hnew", id, a] if observed.starts_with("ok") => {
                    if let Some(names) = chain_of(&crate::names::dec(a)) {
                        open.insert(id.parse().unwrap(), format!("/{}", names.join("/")));
                    }
                }
                ["hclose", id] => {
                    open.remove(&id.parse().unwrap());
                }
                ["create", _] | ["create", _, _] | ["reopen", _] => open.clear(),
                _ => {}
            }
            if observed != "panic" {
                if let Ok(Some(v)) = catch(|| binding_violation(&real, &open)) {
                    violations.push(format!("step {}: {} :: {}", i, short(line), v));
                    dead = true;
                }
            }
        }
        writeln!(impl_out, "{} | {}", observed, catch(|| format!("{} | {}", real.dirtable(), real.handle_states())).unwrap_or_else(|_| "- | -".into())).unwrap();
        if observed == "panic" {
            dead = true;
        }
    }
    std::fs::write(impl_path, impl_out).unwrap();
    violations
}

fn permutations(n: usize) -> Vec<Vec<usize>> {
    fn go(cur: &mut Vec<usize>, used: &mut Vec<bool>, n: usize, out: &mut Vec<Vec<usize>>) {
        if cur.len() == n {
            out.push(cur.clone());
            return;
        }
        for i in 0..n {
            if !used[i] {
                used[i] = true;
                cur.push(i);
                go(cur, used, n, out);
                cur.pop();
                used[i] = false;
            }
        }
    }
    let mut out = Vec::new();
    go(&mut Vec::new(), &mut vec![false; n], n, &mut out);
    out
}

/// Exhaustive sibling-set campaign: every insertion order x every removal order (or `sample`
/// random removal orders per insertion order when `sample > 0`) of `n` sibling names.
pub fn perm_campaign(seed: u64, n: usize, sample: u64, ops_path: &str, impl_path: &str) -> Outcome {
    let mut rng = Rng::new(seed);
    let name_sets: &[&[&str]] = &[&["b", "D", "f", "h", "J", "l"], &["a", "bb", "B", "ccc", "Dd", "e"], &["x\u{e9}", "X\u{c9}y", "z", "\u{10400}", "\u{ffff}", "Z1"]];
    let mut ops_out = String::new();
    let mut impl_out = String::new();
    let mut out = Outcome { ops: 0, histories: 0, hist: Default::default(), distinct: Default::default(), violations: vec![] };
    let perms = permutations(n);
    let mut hidx = 0u64;
    for (si, set) in name_sets.iter().enumerate() {
        for ins in perms.iter() {
            let rems: Vec<Vec<usize>> = if sample == 0 {
                perms.clone()
            } else {
                (0..sample).map(|_| perms[rng.below(perms.len() as u64) as usize].clone()).collect()
            };
            for rem in rems.iter() {
                let parent = if (hidx % 3) == 0 { "/" } else { "/st" };
                let mut lines: Vec<String> = vec![format!("create {}", if hidx % 2 == 0 { 3 } else { 4 })];
                if parent != "/" {
                    lines.push(format!("mkdir {}", enc(parent)));
                }
                let path = |i: usize| -> String { if parent == "/" { format!("/{}", set[i]) } else { format!("{}/{}", parent, set[i]) } };
                for &i in ins {
                    if (i + si) % 3 == 0 {
                        lines.push(format!("mkdir {}", enc(&path(i))));
                    } else {
                        lines.push(format!("put {} {}", enc(&path(i)), hex(&pattern(10 + i * 37, i as u64))));
                    }
                }
                lines.push(format!("ls {}", enc(parent)));
                for (k, &j) in rem.iter().enumerate() {
                    if (j + si) % 3 == 0 {
                        lines.push(format!("rmdir {}", enc(&path(j))));
                    } else {
                        lines.push(format!("rm {}", enc(&path(j))));
                    }
                    if k % 2 == 0 {
                        lines.push(format!("ls {}", enc(parent)));
                    } else {
                        lines.push("walk".to_string());
                    }
                    if k == 1 {
                        lines.push(format!("reopen {}", if hidx % 2 == 0 { "strict" } else { "permissive" }));
                    }
                }
                let mut real = Real::new();
                let mut model = RefModel::new();
                let mut hash: u64 = 1469598103934665603;
                for (i, line) in lines.iter().enumerate() {
                    for b in line.bytes() {
                        hash = (hash ^ b as u64).wrapping_mul(1099511628211);
                    }
                    let observed = real.exec(line);
                    let expected = model.apply(line);
                    let kind = line.split(' ').next().unwrap().to_string();
                    let okind: String = observed.split(' ').take(if observed.starts_with("err") { 2 } else { 1 }).collect::<Vec<_>>().join(" ");
                    *out.hist.entry(format!("{}:{}", kind, okind)).or_insert(0) += 1;
                    let mut dead = observed == "panic";
                    if let Some(exp) = expected {
                        if exp != observed {
                            out.violations.push(format!("history {} (perm seed {}) step {}: {} gave {} but the abstract tree model says {}", hidx, seed, i, short(line), short(&observed), short(&exp)));
                            dead = true;
                        }
                    }
                    writeln!(ops_out, "{}", line).unwrap();
                    writeln!(impl_out, "{} | {}", observed, catch(|| format!("{} | {}", real.dirtable(), real.handle_states())).unwrap_or_else(|_| "- | -".into())).unwrap();
                    out.ops += 1;
                    if dead {
                        break;
                    }
                }
                out.histories += 1;
                out.distinct.insert(hash);
                hidx += 1;
            }
        }
    }
    std::fs::write(ops_path, ops_out).unwrap();
    std::fs::write(impl_path, impl_out).unwrap();
    out
}

/// C07 campaign: several open handles on different streams interleaved with structural
/// mutations of *other* entries (biased to removals of siblings — the two-children case — and
/// creations that reuse freed directory slots), resizes across 4096 and observations.
pub fn handle_campaign(seed: u64, count: u64, max_ops: u64, ops_path: &str, impl_path: &str) -> Outcome {
    let mut rng = Rng::new(seed);
    let mut ops_out = String::new();
    let mut impl_out = String::new();
    let mut out = Outcome { ops: 0, histories: 0, hist: Default::default(), distinct: Default::default(), violations: vec![] };
    let cfg = GenCfg { names_valid_only: true, reopen_pct: 0, max_depth: 2, handle_ops: true, meta_ops: true, refusal_bias: false, meta_heavy: false };
    for h in 0..count {
        let mut r = rng.fork();
        let version = if r.chance(1, 2) { "3" } else { "4" };
        let pool: Vec<String> = {
            let base = ["m", "c", "x", "a", "k", "s", "q", "e", "g", "u", "Bb", "dd", "ff", "zz"];
            let n = 5 + r.below(8) as usize;
            let mut v: Vec<String> = base.iter().map(|s| s.to_string()).collect();
            // shuffle
            for i in (1..v.len()).rev() {
                let j = r.below(i as u64 + 1) as usize;
                v.swap(i, j);
            }
            v.truncate(n);
            v
        };
        let mut real = Real::new();
        let mut model = RefModel::new();
        let mut open: BTreeMap<u32, String> = BTreeMap::new(); // id -> canonical path
        let n_ops = 8 + r.below(max_ops);
        let mut hash: u64 = 1469598103934665603;
        let mut lines_done = 0u64;
        let mut pending: Vec<String> = vec![match h % 6 { 2 => format!("create {} - short", version), 5 => format!("create {} - intr", version), _ => format!("create {}", version) }];
        // a prefix that builds a sibling tree with inner nodes
        for nm in pool.iter().take(3 + r.below(4) as usize) {
            let p = format!("/{}", nm);
            if r.chance(1, 5) {
                pending.push(format!("mkdir {}", enc(&p)));
            } else {
                pending.push(format!("put {} {}", enc(&p), hex(&pattern(*r.pick(&[0usize, 10, 100, 700, 4095, 4096, 5000]), h + lines_done))));
            }
        }
        let mut dead = false;
        while lines_done < n_ops && !dead {
            let line = if let Some(l) = pending.first().cloned() {
                pending.remove(0);
                l
            } else {
                let streams: Vec<String> = model.all_paths().into_iter().filter(|(_, s)| *s).map(|(p, _)| p).collect();
                let held: Vec<&String> = open.values().collect();
                let free_streams: Vec<&String> = streams.iter().filter(|p| !held.contains(p)).collect();
                let ids: Vec<u32> = open.keys().cloned().collect();
                let w = r.below(100);
                if w < 12 && !free_streams.is_empty() && open.len() < 4 {
                    let id = (0..8).find(|i| !open.contains_key(i)).unwrap();
                    if r.chance(1, 8) {
                        // not a stream: the root under one of its spellings, or a storage — must be refused
                        let storages: Vec<String> = model.all_paths().into_iter().filter(|(_, s)| !*s).map(|(p, _)| p).collect();
                        let target = match r.below(4) {
                            0 => "/".to_string(),
                            1 => "".to_string(),
                            2 => format!("/{}/..", pool[0]),
                            _ => if storages.is_empty() { "/".to_string() } else { r.pick(&storages).clone() },
                        };
                        format!("hopen {} {}", id, enc(&target))
                    } else {
                        let p = (*r.pick(&free_streams)).clone();
                        open.insert(id, p.clone());
                        format!("hopen {} {}", id, enc(&p))
                    }
                } else if w < 16 && open.len() < 4 {
                    let id = (0..8).find(|i| !open.contains_key(i)).unwrap();
                    let nm = r.pick(&pool).clone();
                    let p = format!("/{}", nm);
                    if model.all_paths().iter().any(|(q, _)| key_of(&q[1..]) == key_of(&nm)) {
                        format!("exists {}", enc(&p))
                    } else {
                        open.insert(id, p.clone());
                        format!("hnew {} {}", id, enc(&p))
                    }
                } else if w < 50 && !ids.is_empty() {
                    let id = *r.pick(&ids);
                    match r.below(10) {
                        0..=3 => format!("hwrite {} {}", id, hex(&pattern(*r.pick(&[1usize, 10, 64, 100, 700, 1024, 3000, 4096, 5000]), h * 131 + lines_done))),
                        4 | 5 => format!("hread {} {}", id, r.pick(&[1usize, 10, 100, 1000, 5000, 100000])),
                        6 => {
                            if r.chance(1, 3) {
                                // overwrite in the middle, then a request larger than a small stream buffer's maximum:
                                // the buffer is drained and dirty, the cursor is not at the end
                                pending.push(format!("hwrite {} {}", id, hex(&pattern(*r.pick(&[1usize, 10, 100]), h * 7 + lines_done))));
                                pending.push(format!("hread {} {}", id, r.pick(&[1100usize, 2000, 5000])));
                            }
                            format!("hseek {} {}", id, r.below(6000))
                        }
                        7 => format!("hsetlen {} {}", id, r.pick(&[0usize, 10, 64, 100, 4095, 4096, 4097, 6000, 9000, 37, 128, 192, 1000, 1024, 4608, 5000, 5120, 8192])),
                        8 => format!("hflush {}", id),
                        _ => {
                            open.remove(&id);
                            format!("hclose {}", id)
                        }
                    }
                } else if w < 72 {
                    // structural mutation of entries no handle is bound to
                    let others: Vec<(String, bool)> = model.all_paths().into_iter().filter(|(p, _)| !held.iter().any(|hp| *hp == p || hp.starts_with(&format!("{}/", p)))).collect();
                    match r.below(10) {
                        0..=4 if !others.is_empty() => {
                            let (p, is_stream) = r.pick(&others).clone();
                            if is_stream { format!("rm {}", enc(&p)) } else { format!("rmall {}", enc(&p)) }
                        }
                        5 | 6 => {
                            let nm = r.pick(&pool).clone();
                            let parent = if r.chance(1, 3) {
                                model.all_paths().into_iter().filter(|(_, s)| !*s).map(|(p, _)| p).next().unwrap_or_default()
                            } else {
                                String::new()
                            };
                            let p = format!("{}/{}", parent, nm);
                            if held.iter().any(|hp| key_of(&hp[1..]) == key_of(&p[1..])) {
                                format!("exists {}", enc(&p))
                            } else {
                                format!("put {} {}", enc(&p), hex(&pattern(*r.pick(&[0usize, 5, 64, 500, 4096, 5000]), h + lines_done)))
                            }
                        }
                        7 => format!("mkdir {}", enc(&format!("/{}", r.pick(&pool)))),
                        _ if !others.is_empty() => {
                            let (p, _) = r.pick(&others).clone();
                            format!("setbits {} {}", enc(&p), r.next() as u32)
                        }
                        _ => "walk".to_string(),
                    }
                } else if w < 80 && !ids.is_empty() {
                    // quiescent point: flush everything, then look at all of it
                    for id in &ids {
                        pending.push(format!("hflush {}", id));
                    }
                    pending.push("walk".to_string());
                    format!("hlen {}", ids[0])
                } else if w < 90 {
                    if let Some(p) = free_streams.first() { format!("get {}", enc(p)) } else { "lsroot".to_string() }
                } else {
                    gen_op(&mut r, &model, &pool, &cfg, &[0, 10, 100], h)
                }
            };
            // never touch a stream a handle is bound to through another handle or a removal
            let t: Vec<&str> = line.split(' ').collect();
            if matches!(t[0], "put" | "mkstream" | "mknew" | "rm" | "rmall" | "rmdir" | "get" | "open" | "mkdirs") && t.len() > 1 {
                let target = chain_of(&crate::names::dec(t[1])).map(|n| n.iter().map(|x| key_of(x)).collect::<Vec<_>>());
                let clash = open.values().any(|hp| {
                    let hk: Vec<Key> = chain_of(hp).unwrap().iter().map(|x| key_of(x)).collect();
                    match &target {
                        Some(tk) => hk.len() >= tk.len() && hk[..tk.len()] == tk[..],
                        None => false,
                    }
                });
                if clash {
                    continue;
                }
            }
            for b in line.bytes() {
                hash = (hash ^ b as u64).wrapping_mul(1099511628211);
            }
            let observed = real.exec(&line);
            let expected = model.apply(&line);
            let kind = line.split(' ').next().unwrap().to_string();
            let okind: String = observed.split(' ').take(if observed.starts_with("err") { 2 } else { 1 }).collect::<Vec<_>>().join(" ");
            *out.hist.entry(format!("{}:{}", kind, okind)).or_insert(0) += 1;
            if let Some(exp) = expected {
                if exp != observed {
                    out.violations.push(format!("history {} (seed {}) step {}: {} gave {} but the abstract tree model says {}", h, seed, lines_done, short(&line), short(&observed), short(&exp)));
                    dead = true;
                }
            }
            // the binding itself: a handle's slot must be the slot of the entry at its path
            if !dead && observed != "panic" {
                if let Some(v) = binding_violation(&real, &open) {
                    out.violations.push(format!("history {} (seed {}) step {}: {} :: {}", h, seed, lines_done, short(&line), v));
                    dead = true;
                }
            }
            writeln!(ops_out, "{}", line).unwrap();
            writeln!(impl_out, "{} | {}", observed, catch(|| format!("{} | {}", real.dirtable(), real.handle_states())).unwrap_or_else(|_| "- | -".into())).unwrap();
            out.ops += 1;
            lines_done += 1;
            if observed == "panic" {
                dead = true;
            }
        }
        out.histories += 1;
        out.distinct.insert(hash);
    }
    std::fs::write(ops_path, ops_out).unwrap();
    std::fs::write(impl_path, impl_out).unwrap();
    out
}

use std::collections::BTreeMap;

/// A handle opened on path p must have `stream_id` = the slot at which the directory holds the
/// entry that lookups of p find (observed through hook H3).
pub fn binding_violation(real: &Real, open: &BTreeMap<u32, String>) -> Option<String> {
    let comp = real.comp.as_ref()?;
    let d = comp.verif_dump();
    for (id, path) in open.iter() {
        let Some(s) = real.handles.get(id) else { continue };
        let slot = s.verif_state().0 as usize;
        let names = chain_of(path)?;
        // walk the table by name from the root
        let mut cur = 0usize;
        let mut ok = true;
        for n in &names {
            let mut c = d.dir_entries[cur].child;
            let mut found = None;
            while c != u32::MAX {
                let e = &d.dir_entries[c as usize];
                match cfb::verif::compare_names(n, &e.name) {
                    std::cmp::Ordering::Equal => {
                        found = Some(c as usize);
                        break;
                    }
                    std::cmp::Ordering::Less => c = e.left_sibling,
                    std::cmp::Ordering::Greater => c = e.right_sibling,
                }
            }
            match found {
                Some(f) => cur = f,
                None => {
                    ok = false;
                    break;
                }
            }
        }
        if ok && cur != slot {
            return Some(format!("handle {} was opened on {} (now in directory slot {}) but is bound to slot {}", id, path, cur, slot));
        }
        if ok && d.dir_entries[slot].obj_type != 2 {
            return Some(format!("handle {} on {} is bound to slot {} which is not a stream entry", id, path, slot));
        }
    }
    None
}

/// C18: replay the histories of an ops file on every backend / chunking / buffer size / version
/// variant and compare with the in-memory baseline.
pub fn variants(ops_path: &str, scratch: &str) -> (u64, Vec<String>) {
    use crate::api::BackendKind;
    use crate::backend::Chunking;
    let text = std::fs::read_to_string(ops_path).unwrap();
    let mut histories: Vec<Vec<String>> = Vec::new();
    for line in text.lines() {
        if line.starts_with("create ") {
            histories.push(Vec::new());
        }
        if let Some(h) = histories.last_mut() {
            if !line.starts_with("snap ") {
                h.push(line.to_string());
            }
        }
    }
    let run = |h: &Vec<String>, backend: BackendKind, maxbuf: Option<usize>, version: Option<u8>| -> (Vec<String>, Vec<String>, Vec<u8>) {
        let mut real = Real::new();
        real.backend = backend;
        real.maxbuf = maxbuf;
        real.force_version = version;
        let mut results = Vec::new();
        let mut tables = Vec::new();
        for line in h {
            let o = real.exec(line);
            tables.push(catch(|| real.dirtable()).unwrap_or_default());
            let dead = o == "panic";
            results.push(o);
            if dead {
                break;
            }
        }
        real.handles.clear();
        if let Some(c) = real.comp.as_mut() {
            let _ = c.flush();
        }
        let img = real.image();
        (results, tables, img)
    };
    // the same history with the storages' times pinned only at the end (a storage removed before then never has its
    // clock time pinned): what is left in the file must not depend on when the run was made
    let run_pin_late = |h: &Vec<String>| -> Vec<u8> {
        let mut real = Real::new();
        real.pin_late = true;
        for line in h {
            if real.exec(line) == "panic" {
                break;
            }
        }
        real.handles.clear();
        if let Some(c) = real.comp.as_mut() {
            let paths: Vec<String> = c.walk().filter(|e| e.is_storage()).map(|e| e.path().to_string_lossy().into_owned()).collect();
            let pin = cfb::verif::system_time_from_timestamp(crate::api::PIN_TS);
            for q in paths {
                let _ = c.set_created_time(&q, pin);
                let _ = c.set_modified_time(&q, pin);
            }
            let _ = c.flush();
        }
        real.image()
    };
    let mut violations = Vec::new();
    let mut evaluations = 0u64;
    std::fs::create_dir_all(scratch).unwrap();
    for (i, h) in histories.iter().enumerate() {
        let (r0, t0, img0) = run(h, BackendKind::Mem, None, None);
        if h.iter().any(|l| l.starts_with("mkdir")) {
            let a = run_pin_late(h);
            std::thread::sleep(std::time::Duration::from_micros(50));
            let b = run_pin_late(h);
            evaluations += 1;
            if a != b {
                let k = a.iter().zip(b.iter()).position(|(x, y)| x != y).unwrap_or(a.len().min(b.len()));
                violations.push(format!("history {} on backend `second run, times pinned at the end`: two runs of the same history leave different files (first difference at byte {}, lengths {} / {}): something in the file depends on the clock although every storage that exists has pinned times", i, k, a.len(), b.len()));
            }
        }
        let file_path = format!("{}/c18_{}.cfb", scratch, i);
        let same_bytes: Vec<(&str, BackendKind)> = vec![
            ("second run", BackendKind::Mem),
            ("std::fs::File", BackendKind::File(file_path.clone())),

            ("1-byte transfers", BackendKind::Chunky(Chunking::OneByte)),
            ("random short transfers", BackendKind::Chunky(Chunking::RandomShort)),
            ("Interrupted then retry", BackendKind::Chunky(Chunking::Interrupted)),
        ];
        for (name, b) in same_bytes {
            let (r, t, img) = run(h, b, None, None);
            evaluations += 1;
            if r != r0 {
                let k = r.iter().zip(r0.iter()).position(|(a, b)| a != b).unwrap_or(r.len().min(r0.len()));
                violations.push(format!("history {} on backend `{}`: result of step {} ({}) is {} but {} on the in-memory backend", i, name, k, short(&h[k.min(h.len() - 1)]), short(r.get(k).map(|s| s.as_str()).unwrap_or("<none>")), short(r0.get(k).map(|s| s.as_str()).unwrap_or("<none>"))));
            } else if t != t0 {
                violations.push(format!("history {} on backend `{}`: the directory table differs from the in-memory run", i, name));
            } else if img != img0 {
                let k = img.iter().zip(img0.iter()).position(|(a, b)| a != b).unwrap_or(img.len().min(img0.len()));
                violations.push(format!("history {} on backend `{}`: the file differs from the in-memory run at byte {} (lengths {} / {})", i, name, k, img.len(), img0.len()));
            }
        }
        // the crate's own path constructor over a longer stale file, against the same history in
        // memory with the same create / into_inner / open steps
        {
            let (r1, t1, img1) = run(h, BackendKind::MemReopened, None, None);
            let (r, t, img) = run(h, BackendKind::PathApi(file_path.clone()), None, None);
            let name = "cfb::create(path) over a longer stale file";
            evaluations += 1;
            if r != r1 {
                let k = r.iter().zip(r1.iter()).position(|(a, b)| a != b).unwrap_or(r.len().min(r1.len()));
                violations.push(format!("history {} on backend `{}`: result of step {} ({}) is {} but {} on the in-memory backend", i, name, k, short(&h[k.min(h.len() - 1)]), short(r.get(k).map(|s| s.as_str()).unwrap_or("<none>")), short(r1.get(k).map(|s| s.as_str()).unwrap_or("<none>"))));
            } else if t != t1 {
                violations.push(format!("history {} on backend `{}`: the directory table differs from the in-memory run", i, name));
            } else if img != img1 {
                let k = img.iter().zip(img1.iter()).position(|(a, b)| a != b).unwrap_or(img.len().min(img1.len()));
                violations.push(format!("history {} on backend `{}`: the file differs from the in-memory run at byte {} (lengths {} / {})", i, name, k, img.len(), img1.len()));
            }
        }
        // the crate's path constructors for existing files: `cfb::open`, `cfb::open_rw`, `OpenOptions::open`,
        // `OpenOptions::open_rw` on the finished image must show what the in-memory image shows, and a
        // mutation through `open_rw` must change the file exactly as it changes the in-memory bytes
        if !img0.is_empty() {
            std::fs::write(&file_path, &img0).unwrap();
            let reference = std::io::Cursor::new(img0.clone());
            let want = cfb::CompoundFile::open(reference).map(|c| crate::api::dump_of(c)).unwrap_or_else(|e| format!("err {}", err_kind(&e)));
            let got: Vec<(&str, String)> = vec![
                ("cfb::open(path)", cfb::open(&file_path).map(|c| crate::api::dump_of(c)).unwrap_or_else(|e| format!("err {}", err_kind(&e)))),
                ("cfb::open_rw(path)", cfb::open_rw(&file_path).map(|c| crate::api::dump_of(c)).unwrap_or_else(|e| format!("err {}", err_kind(&e)))),
                ("OpenOptions::open(path)", cfb::OpenOptions::new().max_buffer_size(1024).open(&file_path).map(|c| crate::api::dump_of(c)).unwrap_or_else(|e| format!("err {}", err_kind(&e)))),
                ("OpenOptions::open_rw(path)", cfb::OpenOptions::new().max_buffer_size(1024).open_rw(&file_path).map(|c| crate::api::dump_of(c)).unwrap_or_else(|e| format!("err {}", err_kind(&e)))),
            ];
            for (name, g) in got {
                evaluations += 1;
                if g != want {
                    violations.push(format!("history {} on backend `{}`: the finished image read through the path constructor differs from the in-memory read ({} / {})", i, name, short(&g), short(&want)));
                }
            }
            // reading must not have changed the file
            if std::fs::read(&file_path).unwrap_or_default() != img0 {
                violations.push(format!("history {} on backend `path constructors`: opening and reading changed the file", i));
            }
            // the same mutation through open_rw(path) and through a Cursor
            use std::io::Write as _;
            let mutate = |c: &mut dyn FnMut(&str, &[u8]) -> std::io::Result<()>| -> String {
                let mut out = Vec::new();
                for (nm, n) in [("/zz_rw_small", 100usize), ("/zz_rw_large", 9000usize)] {
                    out.push(match c(nm, &pattern(n, 77)) { Ok(()) => "ok".to_string(), Err(e) => format!("err {}", err_kind(&e)) });
                }
                out.join(",")
            };
            // (options given to the builder must reach the file: a small stream buffer changes how a long
            // write is laid out, so the bytes tell whether `max_buffer_size` arrived)
            let small = i % 2 == 0;
            let mut mem = if small { cfb::OpenOptions::new().max_buffer_size(1024).open_with(std::io::Cursor::new(img0.clone())).ok() } else { cfb::CompoundFile::open(std::io::Cursor::new(img0.clone())).ok() };
            let mut disk = if small { cfb::OpenOptions::new().max_buffer_size(1024).open_rw(&file_path).ok() } else { cfb::open_rw(&file_path).ok() };
            if let (Some(mc), Some(dc)) = (mem.as_mut(), disk.as_mut()) {
                let rm = mutate(&mut |nm, data| { let mut st = mc.create_stream(nm)?; st.write_all(data)?; st.flush() });
                let rd = mutate(&mut |nm, data| { let mut st = dc.create_stream(nm)?; st.write_all(data)?; st.flush() });
                let _ = dc.flush();
                evaluations += 1;
                let mem_bytes = mem.take().unwrap().into_inner().into_inner();
                drop(disk.take());
                let disk_bytes = std::fs::read(&file_path).unwrap_or_default();
                if rm != rd {
                    violations.push(format!("history {} on backend `cfb::open_rw(path)`: creating two streams gives {} but {} in memory", i, rd, rm));
                } else if mem_bytes != disk_bytes {
                    let k = mem_bytes.iter().zip(disk_bytes.iter()).position(|(a, b)| a != b).unwrap_or(mem_bytes.len().min(disk_bytes.len()));
                    violations.push(format!("history {} on backend `cfb::open_rw(path)`: after creating two streams the file differs from the in-memory run at byte {} (lengths {} / {})", i, k, disk_bytes.len(), mem_bytes.len()));
                }
            }
        }
        // `strict()` must reach the file as well: a tolerated deviation (the root entry misnamed) is refused by
        // every strict constructor and accepted by every permissive one
        if img0.len() >= 1536 {
            let s = if img0[30] == 12 { 4096usize } else { 512 };
            let dir0 = u32::from_le_bytes([img0[48], img0[49], img0[50], img0[51]]) as usize;
            let off = (dir0 + 1) * s;
            if off + 128 <= img0.len() && img0[off] == b'R' {
                let mut dev = img0.clone();
                dev[off] = b'r';
                std::fs::write(&file_path, &dev).unwrap();
                let verdicts: Vec<(&str, bool, bool)> = vec![
                    ("strict().open_with(Cursor)", true, cfb::OpenOptions::new().strict().open_with(std::io::Cursor::new(dev.clone())).is_ok()),
                    ("strict().open(path)", true, cfb::OpenOptions::new().strict().open(&file_path).is_ok()),
                    ("strict().open_rw(path)", true, cfb::OpenOptions::new().strict().open_rw(&file_path).is_ok()),
                    ("max_buffer_size(2048).strict().open_rw(path)", true, cfb::OpenOptions::new().max_buffer_size(2048).strict().open_rw(&file_path).is_ok()),
                    // the options in the other order, for several buffer sizes: the outcome of opening must not depend
                    // on the buffer size that is configured, nor on the order in which the builder is told
                    ("strict().max_buffer_size(2048).open_rw(path)", true, cfb::OpenOptions::new().strict().max_buffer_size(2048).open_rw(&file_path).is_ok()),
                    ("strict().max_buffer_size(1).open_with(Cursor)", true, cfb::OpenOptions::new().strict().max_buffer_size(1).open_with(std::io::Cursor::new(dev.clone())).is_ok()),
                    ("strict().max_buffer_size(1 MiB).open(path)", true, cfb::OpenOptions::new().strict().max_buffer_size(1 << 20).open(&file_path).is_ok()),
                    ("max_buffer_size(4096).open_with(Cursor)", false, cfb::OpenOptions::new().max_buffer_size(4096).open_with(std::io::Cursor::new(dev.clone())).is_ok()),
                    ("open(path)", false, cfb::open(&file_path).is_ok()),
                    ("open_rw(path)", false, cfb::open_rw(&file_path).is_ok()),
                    ("OpenOptions::new().open_rw(path)", false, cfb::OpenOptions::new().open_rw(&file_path).is_ok()),
                ];
                for (name, strict, accepted) in verdicts {
                    evaluations += 1;
                    if strict == accepted {
                        violations.push(format!("history {} on backend `{}`: a file whose root entry is misnamed is {} (strict constructors refuse it, permissive ones accept it)", i, name, if accepted { "accepted" } else { "refused" }));
                    }
                }
            }
        }
        let _ = std::fs::remove_file(&file_path);
        // while a handle holds unflushed data, listed lengths depend on when the buffer was written
        // back, i.e. on its size: those results are not compared across buffer sizes
        let mut unspecified = vec![false; h.len()];
        {
            let mut dirty: std::collections::BTreeSet<String> = Default::default();
            for (k, line) in h.iter().enumerate() {
                let t: Vec<&str> = line.split(' ').collect();
                match t[0] {
                    "hwrite" | "hsetlen" => { dirty.insert(t[1].to_string()); }
                    "hflush" | "hclose" | "hopen" | "hnew" | "hcreate" => { dirty.remove(t[1]); }
                    "reopen" | "create" => dirty.clear(),
                    _ => {}
                }
                if !dirty.is_empty() && matches!(t[0], "walk" | "ls" | "lsroot" | "walkfrom" | "entry") {
                    unspecified[k] = true;
                }
            }
        }
        let mask = |r: &Vec<String>| -> Vec<String> {
            r.iter().enumerate().map(|(k, x)| if unspecified.get(k).copied().unwrap_or(false) { "-".to_string() } else { x.clone() }).collect()
        };
        for m in [0usize, 1025, 1500, 4096, 65536] {
            let (r, _, _) = run(h, BackendKind::Mem, Some(m), None);
            let (r, r0) = (mask(&r), mask(&r0));
            evaluations += 1;
            if r != r0 {
                let k = r.iter().zip(r0.iter()).position(|(a, b)| a != b).unwrap_or(0);
                violations.push(format!("history {} with max_buffer_size {}: result of step {} ({}) is {} but {} with the default", i, m, k, short(&h[k.min(h.len() - 1)]), short(&r[k.min(r.len() - 1)]), short(&r0[k.min(r0.len() - 1)])));
            }
        }
        for v in [3u8, 4] {
            let (r, _, _) = run(h, BackendKind::Mem, None, Some(v));
            evaluations += 1;
            if r != r0 {
                let k = r.iter().zip(r0.iter()).position(|(a, b)| a != b).unwrap_or(0);
                violations.push(format!("history {} in version {}: result of step {} ({}) is {} but {} in the other version", i, v, k, short(&h[k.min(h.len() - 1)]), short(&r[k.min(r.len() - 1)]), short(&r0[k.min(r0.len() - 1)])));
            }
        }
    }
    (evaluations, violations)
}
