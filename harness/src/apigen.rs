//! Generators and campaigns over the API engine (C01 and the properties that share it).
use crate::api::*;
use crate::names::{enc, gen_name};
use crate::util::*;
use std::fmt::Write as _;

pub const SIZES_V3: &[usize] = &[0, 1, 63, 64, 65, 127, 128, 500, 511, 512, 513, 1024, 4095, 4096, 4097, 4608, 5000, 8191, 8192, 8193, 20000];

pub struct GenCfg {
    pub names_valid_only: bool,
    pub reopen_pct: u64,
    pub max_depth: usize,
    pub handle_ops: bool,
    pub meta_ops: bool,
    pub refusal_bias: bool,
    pub meta_heavy: bool,
}

/// A pool of names for one history: a few base names plus case variants and near misses.
pub fn name_pool(rng: &mut Rng, valid_only: bool) -> Vec<String> {
    let mut pool: Vec<String> = Vec::new();
    let n = 3 + rng.below(10) as usize;
    while pool.len() < n {
        let nm = match rng.below(6) {
            0 | 1 => rng.pick(&["a", "b", "c", "d", "e", "f", "g", "A", "B", "ab", "Ab", "aB", "abc", "x", "y", "Z"]).to_string(),
            2 => format!("{}{}", rng.pick(&["s", "S", "dir", "Dir", "stream"]), rng.below(4)),
            _ => gen_name(rng),
        };
        if nm.is_empty() || nm == "." || nm == ".." || nm.contains('/') || nm.contains('\u{0}') {
            continue;
        }
        if valid_only && !valid_name(&nm) {
            continue;
        }
        pool.push(nm);
    }
    // case variants of some
    for i in 0..pool.len().min(4) {
        let v = pool[i].chars().map(|c| if rng.chance(1, 2) { cfb::verif::uppercase_char(c) } else { c }).collect::<String>();
        if v != pool[i] {
            pool.push(v);
        }
    }
    pool
}

fn spell(rng: &mut Rng, canon: &[String]) -> String {
    // a spelling of the path: leading/trailing slashes, `.`, resolvable `..`
    let mut s = String::new();
    if rng.chance(4, 5) {
        s.push('/');
    }
    for (i, n) in canon.iter().enumerate() {
        if rng.chance(1, 12) {
            s.push_str("./");
        }
        if rng.chance(1, 15) {
            s.push_str("zz/../");
        }
        s.push_str(n);
        if i + 1 < canon.len() {
            s.push('/');
            if rng.chance(1, 20) {
                s.push('/');
            }
        }
    }
    if rng.chance(1, 8) {
        s.push('/');
    }
    if s.is_empty() {
        s.push('/');
    }
    s
}

pub fn gen_path(rng: &mut Rng, model: &RefModel, pool: &[String], cfg: &GenCfg, want: u64) -> String {
    // want: 0 = any, 1 = existing stream, 2 = existing storage, 3 = fresh child of an existing storage
    let all = model.all_paths();
    let pick_existing = |rng: &mut Rng, stream: Option<bool>| -> Option<Vec<String>> {
        let c: Vec<&(String, bool)> = all.iter().filter(|(_, s)| stream.map(|x| x == *s).unwrap_or(true)).collect();
        if c.is_empty() {
            None
        } else {
            chain_of(&rng.pick(&c).0)
        }
    };
    let canon: Vec<String> = match want {
        1 => pick_existing(rng, Some(true)),
        2 => if rng.chance(1, 4) { Some(vec![]) } else { pick_existing(rng, Some(false)) },
        3 => {
            let mut parent = if rng.chance(1, 2) { vec![] } else { pick_existing(rng, Some(false)).unwrap_or_default() };
            if parent.len() >= cfg.max_depth {
                parent.truncate(cfg.max_depth - 1);
            }
            parent.push(rng.pick(pool).clone());
            Some(parent)
        }
        4 => pick_existing(rng, Some(true)).map(|mut p| {
            p.push(rng.pick(pool).clone());
            p
        }),
        _ => None,
    }
    .unwrap_or_else(|| {
        let d = 1 + rng.below(cfg.max_depth as u64) as usize;
        (0..d).map(|_| rng.pick(pool).clone()).collect()
    });
    // occasionally change the case of a component (same object) or escape the root
    let mut canon = canon;
    if !canon.is_empty() && rng.chance(1, 6) {
        let i = rng.below(canon.len() as u64) as usize;
        canon[i] = canon[i].chars().map(|c| if rng.chance(1, 2) { cfb::verif::uppercase_char(c) } else { c }).collect();
    }
    if rng.chance(1, 60) {
        return "../x".to_string();
    }
    spell(rng, &canon)
}

pub fn gen_op(rng: &mut Rng, model: &RefModel, pool: &[String], cfg: &GenCfg, sizes: &[usize], salt: u64) -> String {
    let e = |s: &str| enc(s);
    let w = if cfg.meta_heavy && rng.chance(1, 2) { 88 + rng.below(10) } else { rng.below(100) };
    let refusal = cfg.refusal_bias && rng.chance(2, 5);
    let pe = |rng: &mut Rng, want: u64| e(&gen_path(rng, model, pool, cfg, want));
    match w {
        0..=11 => {
            let want = if refusal { *rng.pick(&[0, 1, 2, 4]) } else if rng.chance(1, 25) { 4 } else { 3 };
            format!("mkdir {}", pe(rng, want))
        }
        12..=15 => format!("mkdirs {}", pe(rng, if refusal { 1 } else { 0 })),
        16..=31 => {
            let want = if rng.chance(1, 3) { 1 } else if rng.chance(1, 25) { 4 } else { 3 };
            format!("put {} {}", pe(rng, want), hex(&pattern(*rng.pick(sizes), salt)))
        }
        32..=34 => {
            let want = if rng.chance(1, 2) { 1 } else { 3 };
            format!("mkstream {}", pe(rng, want))
        }
        35..=37 => format!("mknew {}", pe(rng, if refusal { 1 } else { 3 })),
        38..=47 => format!("rm {}", pe(rng, if refusal { 2 } else { 1 })),
        48..=53 => format!("rmdir {}", pe(rng, if refusal { 0 } else { 2 })),
        54..=56 => format!("rmall {}", pe(rng, 2)),
        57..=62 => format!("get {}", pe(rng, 1)),
        63..=64 => format!("open {}", pe(rng, 0)),
        65..=68 => format!("exists {}", pe(rng, 0)),
        69 => format!("isstream {}", pe(rng, 0)),
        70 => format!("isstorage {}", pe(rng, 0)),
        71..=74 => format!("entry {}", pe(rng, 0)),
        75..=79 => format!("ls {}", pe(rng, 2)),
        80 => "lsroot".to_string(),
        81..=84 => "walk".to_string(),
        85..=86 => format!("walkfrom {}", pe(rng, 0)),
        87 => "rootentry".to_string(),
        88..=97 if cfg.meta_ops => match rng.below(4) {
            0 => {
                let want = *rng.pick(&[0, 1, 2, 2]);
                format!("setbits {} {}", pe(rng, want), rng.next() as u32)
            }
            1 => format!("setclsid {} {}", pe(rng, if refusal { 1 } else { 2 }), hex(&rng.next().to_le_bytes().iter().chain(rng.next().to_le_bytes().iter()).cloned().collect::<Vec<u8>>())),
            2 => {
                let want = *rng.pick(&[0, 1, 2, 2]);
                format!("setctime {} {} {}", pe(rng, want), rng.below(4_000_000_000) as i64 - 2_000_000_000, rng.below(1_000_000_000))
            }
            _ => format!("setmtime {} {} {}", pe(rng, 2), *rng.pick(&[0i64, -11644473600, -11644473601, 1833029933770, 1833029933771, i64::MAX, i64::MIN + 1, 1489862796]), *rng.pick(&[0u32, 99, 100, 999999999])),
        },
        _ => format!("get {}", pe(rng, 1)),
    }
}

pub struct Outcome {
    pub ops: u64,
    pub histories: u64,
    pub hist: std::collections::BTreeMap<String, u64>,
    pub distinct: std::collections::HashSet<u64>,
    pub violations: Vec<String>,
}

/// C01-style campaign.  Writes ops and impl (`<result> | <dirtable>`) files.
pub fn campaign(seed: u64, count: u64, max_ops: u64, cfg: &GenCfg, ops_path: &str, impl_path: &str, snapdir: Option<&str>) -> Outcome {
    let mut rng = Rng::new(seed);
    let mut ops_out = String::new();
    let mut impl_out = String::new();
    let mut out = Outcome { ops: 0, histories: 0, hist: Default::default(), distinct: Default::default(), violations: vec![] };
    for h in 0..count {
        let mut r = rng.fork();
        let version = if r.chance(1, 2) { "3" } else { "4" };
        let pool = name_pool(&mut r, cfg.names_valid_only);
        let mut real = Real::new();
        let mut model = RefModel::new();
        let n_ops = 1 + r.below(max_ops);
        let mut hash: u64 = 1469598103934665603;
        let mut dead = false;
        for i in 0..=n_ops {
            let line = if i == 0 {
                format!("create {}", version)
            } else if r.below(100) < cfg.reopen_pct {
                format!("reopen {}", if r.chance(1, 2) { "strict" } else { "permissive" })
            } else if snapdir.is_some() && r.chance(1, 10) {
                format!("snap {}/h{}_{}.cfb", snapdir.unwrap(), h, i)
            } else {
                gen_op(&mut r, &model, &pool, cfg, SIZES_V3, h * 1000 + i)
            };
            for b in line.bytes() {
                hash = (hash ^ b as u64).wrapping_mul(1099511628211);
            }
            let before = if cfg.refusal_bias { Some(real.image()) } else { None };
            let observed = real.exec(&line);
            if let Some(b) = before {
                if is_refusal(&observed) && real.image() != b {
                    out.violations.push(format!("history {} (seed {}) step {}: {} gave {} but the underlying bytes changed", h, seed, i, short(&line), short(&observed)));
                }
            }
            let expected = if line.starts_with("snap ") { Some(model.dump()) } else { model.apply(&line) };
            let kind = line.split(' ').next().unwrap().to_string();
            let okind: String = observed.split(' ').take(if observed.starts_with("err") { 2 } else { 1 }).collect::<Vec<_>>().join(" ");
            *out.hist.entry(format!("{}:{}", kind, okind)).or_insert(0) += 1;
            if let Some(exp) = expected {
                if exp != observed {
                    out.violations.push(format!("history {} (seed {}) step {}: {} gave {} but the abstract tree model says {}", h, seed, i, short(&line), short(&observed), short(&exp)));
                    dead = true;
                }
            }
            if let Some(v) = real.clock_violation.take() {
                out.violations.push(format!("history {} (seed {}) step {}: {} :: {}", h, seed, i, short(&line), v));
            }
            writeln!(ops_out, "{}", line).unwrap();
            writeln!(impl_out, "{} | {}", observed, catch(|| real.dirtable()).unwrap_or_else(|_| "-".into())).unwrap();
            out.ops += 1;
            if observed == "panic" || dead {
                break;
            }
        }
        out.histories += 1;
        out.distinct.insert(hash);
    }
    std::fs::write(ops_path, ops_out).unwrap();
    std::fs::write(impl_path, impl_out).unwrap();
    out
}

pub fn is_refusal(observed: &str) -> bool {
    matches!(observed, "err notFound" | "err alreadyExists" | "err invalidInput")
}

pub fn short(s: &str) -> String {
    if s.len() > 400 { format!("{}…", s.chars().take(400).collect::<String>()) } else { s.to_string() }
}

/// Replays an ops file (several histories, each starting with `create`).
pub fn replay(ops_path: &str, impl_path: &str) -> Vec<String> {
    let text = std::fs::read_to_string(ops_path).unwrap();
    let mut real = Real::new();
    let mut model = RefModel::new();
    let mut impl_out = String::new();
    let mut violations = Vec::new();
    let mut dead = false;
    for (i, line) in text.lines().enumerate() {
        if line.starts_with("create ") {
            dead = false;
        }
        if dead {
            writeln!(impl_out, "skipped | -").unwrap();
            continue;
        }
        let before = real.image();
        let observed = real.exec(line);
        if is_refusal(&observed) && real.image() != before {
            violations.push(format!("step {}: {} gave {} but the underlying bytes changed", i, short(line), short(&observed)));
        }
        let expected = if line.starts_with("snap ") { Some(model.dump()) } else { model.apply(line) };
        if let Some(exp) = expected {
            if exp != observed {
                violations.push(format!("step {}: {} gave {} but the abstract tree model says {}", i, short(line), short(&observed), short(&exp)));
                dead = true;
            }
        }
        if let Some(v) = real.clock_violation.take() {
            violations.push(format!("step {}: {} :: {}", i, short(line), v));
        }
        writeln!(impl_out, "{} | {}", observed, catch(|| real.dirtable()).unwrap_or_else(|_| "-".into())).unwrap();
        if observed == "panic" {
            dead = true;
        }
    }
    std::fs::write(impl_path, impl_out).unwrap();
    violations
}

fn permutations(n: usize) -> Vec<Vec<usize>> {
    fn go(cur: &mut Vec<usize>, used: &mut Vec<bool>, n: usize, out: &mut Vec<Vec<usize>>) {
        if cur.len() == n {
            out.push(cur.clone());
            return;
        }
        for i in 0..n {
            if !used[i] {
                used[i] = true;
                cur.push(i);
                go(cur, used, n, out);
                cur.pop();
                used[i] = false;
            }
        }
    }
    let mut out = Vec::new();
    go(&mut Vec::new(), &mut vec![false; n], n, &mut out);
    out
}

/// Exhaustive sibling-set campaign: every insertion order x every removal order (or `sample`
/// random removal orders per insertion order when `sample > 0`) of `n` sibling names.
pub fn perm_campaign(seed: u64, n: usize, sample: u64, ops_path: &str, impl_path: &str) -> Outcome {
    let mut rng = Rng::new(seed);
    let name_sets: &[&[&str]] = &[&["b", "D", "f", "h", "J", "l"], &["a", "bb", "B", "ccc", "Dd", "e"], &["x\u{e9}", "X\u{c9}y", "z", "\u{10400}", "\u{ffff}", "Z1"]];
    let mut ops_out = String::new();
    let mut impl_out = String::new();
    let mut out = Outcome { ops: 0, histories: 0, hist: Default::default(), distinct: Default::default(), violations: vec![] };
    let perms = permutations(n);
    let mut hidx = 0u64;
    for (si, set) in name_sets.iter().enumerate() {
        for ins in perms.iter() {
            let rems: Vec<Vec<usize>> = if sample == 0 {
                perms.clone()
            } else {
                (0..sample).map(|_| perms[rng.below(perms.len() as u64) as usize].clone()).collect()
            };
            for rem in rems.iter() {
                let parent = if (hidx % 3) == 0 { "/" } else { "/st" };
                let mut lines: Vec<String> = vec![format!("create {}", if hidx % 2 == 0 { 3 } else { 4 })];
                if parent != "/" {
                    lines.push(format!("mkdir {}", enc(parent)));
                }
                let path = |i: usize| -> String { if parent == "/" { format!("/{}", set[i]) } else { format!("{}/{}", parent, set[i]) } };
                for &i in ins {
                    if (i + si) % 3 == 0 {
                        lines.push(format!("mkdir {}", enc(&path(i))));
                    } else {
                        lines.push(format!("put {} {}", enc(&path(i)), hex(&pattern(10 + i * 37, i as u64))));
                    }
                }
                lines.push(format!("ls {}", enc(parent)));
                for (k, &j) in rem.iter().enumerate() {
                    if (j + si) % 3 == 0 {
                        lines.push(format!("rmdir {}", enc(&path(j))));
                    } else {
                        lines.push(format!("rm {}", enc(&path(j))));
                    }
                    if k % 2 == 0 {
                        lines.push(format!("ls {}", enc(parent)));
                    } else {
                        lines.push("walk".to_string());
                    }
                    if k == 1 {
                        lines.push(format!("reopen {}", if hidx % 2 == 0 { "strict" } else { "permissive" }));
                    }
                }
                let mut real = Real::new();
                let mut model = RefModel::new();
                let mut hash: u64 = 1469598103934665603;
                for (i, line) in lines.iter().enumerate() {
                    for b in line.bytes() {
                        hash = (hash ^ b as u64).wrapping_mul(1099511628211);
                    }
                    let observed = real.exec(line);
                    let expected = model.apply(line);
                    let kind = line.split(' ').next().unwrap().to_string();
                    let okind: String = observed.split(' ').take(if observed.starts_with("err") { 2 } else { 1 }).collect::<Vec<_>>().join(" ");
                    *out.hist.entry(format!("{}:{}", kind, okind)).or_insert(0) += 1;
                    let mut dead = observed == "panic";
                    if let Some(exp) = expected {
                        if exp != observed {
                            out.violations.push(format!("history {} (perm seed {}) step {}: {} gave {} but the abstract tree model says {}", hidx, seed, i, short(line), short(&observed), short(&exp)));
                            dead = true;
                        }
                    }
                    writeln!(ops_out, "{}", line).unwrap();
                    writeln!(impl_out, "{} | {}", observed, catch(|| real.dirtable()).unwrap_or_else(|_| "-".into())).unwrap();
                    out.ops += 1;
                    if dead {
                        break;
                    }
                }
                out.histories += 1;
                out.distinct.insert(hash);
                hidx += 1;
            }
        }
    }
    std::fs::write(ops_path, ops_out).unwrap();
    std::fs::write(impl_path, impl_out).unwrap();
    out
}
