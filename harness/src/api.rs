//! API history engine: executes operation histories on the real crate, with an independent
//! reference model (nested ordered maps) as the property oracle for C01/C09/C10/C17.
//!
//! One op per line (paths and names are comma-separated hex scalars, see names::enc):
//!   create <3|4> | reopen <permissive|strict>
//!   mkdir p | mkdirs p | mkstream p | mknew p | put p <hex> | get p | open p
//!   rm p | rmdir p | rmall p | exists p | isstream p | isstorage p | entry p | rootentry
//!   ls p | lsroot | walk | walkfrom p
//!   setbits p <u32> | setclsid p <hex16> | setctime p <s> <n> | setmtime p <s> <n>
//!   hopen <id> p | hcreate <id> p | hnew <id> p | hwrite <id> <hex> | hread <id> <n> | hseek <id> <n>
//!   hsetlen <id> <n> | hflush <id> | hclose <id> | flush
//!   snap <file>                   (writes the current image to <file>; output = live logical dump)
use crate::names::{dec, enc};
use crate::timeconv::mk_time;
use crate::backend::{Backend, Chunking, ImageSource};
use crate::util::*;
use cfb::{CompoundFile, Entry, OpenOptions, Stream, Version};
use std::collections::BTreeMap;
use std::io::{Read, Seek, SeekFrom, Write};
use std::path::Path;

// ------------------------------------------------------------------------------------------
// canonical rendering

pub fn ts_of(t: std::time::SystemTime) -> u64 {
    cfb::verif::timestamp_from_system_time(t)
}

/// the accessors the dump does not print (`is_storage`, `is_empty`, `Debug`) must agree with the
/// ones it prints; a disagreement is made visible as a suffix no model ever produces
fn entry_inconsistency(e: &Entry) -> String {
    let mut bad = Vec::new();
    if e.is_storage() != !e.is_stream() {
        bad.push("is_storage");
    }
    if e.is_root() && !e.is_storage() {
        bad.push("root-not-storage");
    }
    if e.is_empty() != (e.len() == 0) {
        bad.push("is_empty");
    }
    if format!("{:?}", e) != format!("{} ({} bytes)", e.path().display(), e.len()) {
        bad.push("debug");
    }
    if bad.is_empty() { String::new() } else { format!("!inconsistent:{}", bad.join("+")) }
}

pub fn render_entry(e: &Entry) -> String {
    let kind = if e.is_root() { "root" } else if e.is_stream() { "stream" } else { "storage" };
    format!(
        "E({}|{}|{}|{}|{}|{}|{}|{}){}",
        enc(e.name()),
        enc(e.path().to_str().unwrap_or("?")),
        kind,
        // the root's `len` is the size of the mini stream, an allocation detail: masked
        if e.is_root() { 0 } else { e.len() },
        hex(e.clsid().as_bytes()),
        e.state_bits(),
        ts_of(e.created()),
        ts_of(e.modified()),
        entry_inconsistency(e)
    )
}

fn render_list<I: Iterator<Item = Entry>>(it: I) -> String {
    let v: Vec<String> = it.map(|e| render_entry(&e)).collect();
    format!("[{}]", v.join(","))
}

/// `putpat <path> <n> <salt>` = `put <path> <hex of pattern(n, salt)>` (keeps huge histories small)
pub fn expand_putpat(line: &str) -> String {
    let t: Vec<&str> = line.split_whitespace().collect();
    format!("put {} {}", t[1], hex(&pattern(t[2].parse().unwrap(), t[3].parse().unwrap())))
}

pub fn dump_generic<F: Read + Seek>(comp: &mut CompoundFile<F>) -> String {
    let entries: Vec<Entry> = comp.walk().collect();
    let mut s = format!("ok {}", render_list(entries.iter().cloned()));
    for e in entries.iter().filter(|e| e.is_stream()) {
        let mut v = Vec::new();
        match comp.open_stream(e.path()).and_then(|mut st| st.read_to_end(&mut v)) {
            Ok(_) => s.push_str(&format!(" {}", hex(&v))),
            Err(_) => s.push_str(" err"),
        }
    }
    s
}

pub fn dump_of<F: Read + Seek>(mut comp: CompoundFile<F>) -> String {
    dump_generic(&mut comp)
}

// ------------------------------------------------------------------------------------------
// the real side

#[derive(Clone, Debug, PartialEq)]
pub enum BackendKind {
    Mem,
    File(String),
    /// the crate's own path constructors (`cfb::create`, `cfb::open_rw`) over a path where a longer
    /// file with other content already exists
    PathApi(String),
    /// in memory, but like `PathApi` the object is created, given up (`into_inner`) and opened again:
    /// the reference `PathApi` is compared with
    MemReopened,
    Chunky(Chunking),
}

pub struct Real {
    pub comp: Option<CompoundFile<Backend>>,
    pub file: Option<ImageSource>,
    pub handles: BTreeMap<u32, Stream<Backend>>,
    pub maxbuf: Option<usize>,
    /// `maxbuf` came from a `create <v> <size>` line of the history
    pub maxbuf_line: bool,
    pub backend: BackendKind,
    pub force_version: Option<u8>,
    /// storages keep the clock's time until `pin_all` (C18: the times of a storage that is removed before are never pinned)
    pub pin_late: bool,
    pub clock_violation: Option<String>,
    /// message of the last panic caught in `exec`
    pub last_panic: Option<String>,
}

/// the instant every new storage is pinned to right after its creation (2019-04-16)
pub const PIN_TS: u64 = 132000000000000000;

fn res(r: std::io::Result<String>) -> String {
    match r {
        Ok(s) => s,
        Err(e) => format!("err {}", err_kind(&e)),
    }
}

fn ok_unit(r: std::io::Result<()>) -> String {
    res(r.map(|_| "ok".to_string()))
}

impl Real {
    pub fn new() -> Real {
        Real { comp: None, file: None, handles: BTreeMap::new(), maxbuf: None, maxbuf_line: false, clock_violation: None, last_panic: None, backend: BackendKind::Mem, force_version: None, pin_late: false }
    }

    pub fn image(&self) -> Vec<u8> {
        self.file.as_ref().map(|f| f.snapshot()).unwrap_or_default()
    }

    pub fn exec(&mut self, line: &str) -> String {
        match catch(|| self.exec_inner(line)) {
            Ok(s) => s,
            Err(m) => {
                self.last_panic = Some(m);
                "panic".into()
            }
        }
    }

    fn exec_inner(&mut self, line: &str) -> String {
        progress(line);
        let expanded;
        let line = if line.starts_with("putpat ") { expanded = expand_putpat(line); &expanded } else { line };
        let t: Vec<&str> = line.split_whitespace().collect();
        let p = |s: &str| dec(s);
        match t.as_slice() {
            ["create", v, mb, be] => {
                // a history that names the way its underlying file splits transfers (results and bytes must
                // not depend on it); a variant run that chose a backend of its own keeps it
                let named = match *be {
                    "short" => Some(BackendKind::Chunky(Chunking::RandomShort)),
                    "intr" => Some(BackendKind::Chunky(Chunking::Interrupted)),
                    _ => None,
                };
                let keep = self.backend.clone();
                if let (Some(b), BackendKind::Mem) = (named, &self.backend) {
                    self.backend = b;
                }
                let r = if *mb == "-" { self.exec_inner(&format!("create {}", v)) } else { self.exec_inner(&format!("create {} {}", v, mb)) };
                self.backend = keep;
                r
            }
            ["create", v, mb] => {
                // a history that names its stream buffer size (a variant run that set one keeps its own)
                if self.maxbuf.is_none() || self.maxbuf_line {
                    self.maxbuf = mb.parse().ok();
                    self.maxbuf_line = true;
                }
                let keep = (self.maxbuf, self.maxbuf_line);
                let r = self.exec_inner(&format!("create {}", v));
                self.maxbuf = keep.0;
                self.maxbuf_line = keep.1;
                r
            }
            ["create", v] => {
                if self.maxbuf_line {
                    self.maxbuf = None;
                    self.maxbuf_line = false;
                }
                self.handles.clear();
                self.comp = None;
                let version = match self.force_version {
                    Some(3) => Version::V3,
                    Some(_) => Version::V4,
                    None => if *v == "3" { Version::V3 } else { Version::V4 },
                };
                let file = match &self.backend {
                    BackendKind::Mem | BackendKind::MemReopened => Backend::Mem(SharedFile::new(Vec::new())),
                    BackendKind::Chunky(mode) => Backend::Chunky { inner: SharedFile::new(Vec::new()), mode: *mode, rng: Rng::new(7), toggle: false },
                    BackendKind::File(path) => {
                        let f = std::fs::OpenOptions::new().read(true).write(true).create(true).truncate(true).open(path).unwrap();
                        Backend::File(f, path.clone())
                    }
                    BackendKind::PathApi(path) => {
                        // what was at the path before must not matter: longer, and not zeros
                        std::fs::write(path, vec![0xabu8; 300_000]).unwrap();
                        if version == Version::V4 {
                            // `cfb::create(path)`, then the same std::fs::File is handed on
                            match cfb::create(path) {
                                Ok(c) => Backend::File(c.into_inner(), path.clone()),
                                Err(e) => return format!("err {}", err_kind(&e)),
                            }
                        } else {
                            let f = std::fs::OpenOptions::new().read(true).write(true).create(true).truncate(true).open(path).unwrap();
                            Backend::File(f, path.clone())
                        }
                    }
                };
                self.file = Some(file.image_source());
                let via_path = matches!(self.backend, BackendKind::PathApi(_)) && version == Version::V4;
                let made = if via_path {
                    let mut file = file;
                    file.seek(SeekFrom::Start(0)).unwrap();
                    CompoundFile::open(file)
                } else if matches!(self.backend, BackendKind::MemReopened) && version == Version::V4 {
                    CompoundFile::create_with_version(version, file).and_then(|c| {
                        let mut f = c.into_inner();
                        f.seek(SeekFrom::Start(0)).unwrap();
                        CompoundFile::open(f)
                    })
                } else {
                    CompoundFile::create_with_version(version, file)
                };
                match made {
                    Ok(c) => {
                        // reopen through OpenOptions when a buffer size is configured
                        if let Some(m) = self.maxbuf {
                            let f = c.into_inner();
                            self.comp = Some(OpenOptions::new().max_buffer_size(m).open_with(f).unwrap());
                        } else {
                            self.comp = Some(c);
                        }
                        "ok".into()
                    }
                    Err(e) => format!("err {}", err_kind(&e)),
                }
            }
            ["reopen", mode] => {
                self.handles.clear();
                let comp = self.comp.take().unwrap();
                // no flush: take the bytes as into_inner leaves them
                let mut file = comp.into_inner();
                file.seek(SeekFrom::Start(0)).unwrap();
                // either order of the two builder calls must give the same options
                static ORDER: std::sync::atomic::AtomicUsize = std::sync::atomic::AtomicUsize::new(0);
                let strict_first = ORDER.fetch_add(1, std::sync::atomic::Ordering::SeqCst) % 2 == 1;
                let mut o = OpenOptions::new();
                if strict_first && *mode == "strict" {
                    o = o.strict();
                }
                if let Some(m) = self.maxbuf {
                    o = o.max_buffer_size(m);
                }
                if !strict_first && *mode == "strict" {
                    o = o.strict();
                }
                // `open_with` consumes the backend; on refusal reopen the same bytes permissively so
                // that the history can continue
                let src = self.file.clone().unwrap();
                match o.open_with(file) {
                    Ok(c) => {
                        self.comp = Some(c);
                        "ok".into()
                    }
                    Err(e) => {
                        let bytes = src.snapshot();
                        let again = SharedFile::new(bytes);
                        self.file = Some(ImageSource::Mem(again.clone()));
                        self.comp = OpenOptions::new().open_with(Backend::Mem(again)).ok();
                        format!("err {}", err_kind(&e))
                    }
                }
            }
            ["snap", path] => {
                std::fs::write(path, self.image()).unwrap();
                self.dump()
            }
            _ => {
                let Some(comp) = self.comp.as_mut() else { return "err nofile".into() };
                match t.as_slice() {
                    ["mkdir", a] | ["mkdirs", a] => {
                        // storages get `now` as their times; check the bounds the property states,
                        // then pin both times to PIN_TS so that everything later is deterministic
                        let path = p(a);
                        let news: Vec<String> = match chain_of(&path) {
                            Some(names) => (1..=names.len())
                                .filter(|l| t[0] == "mkdirs" || *l == names.len())
                                .map(|l| format!("/{}", names[..l].join("/")))
                                .filter(|q| !comp.exists(q))
                                .collect(),
                            None => Vec::new(),
                        };
                        let before = ts_of(std::time::SystemTime::now());
                        let r = if t[0] == "mkdir" { comp.create_storage(&path) } else { comp.create_storage_all(&path) };
                        let after = ts_of(std::time::SystemTime::now());
                        if r.is_ok() {
                            for q in &news {
                                if let Ok(e) = comp.entry(q) {
                                    let (c, m) = (ts_of(e.created()), ts_of(e.modified()));
                                    if !(before <= c && c <= after && c == m) {
                                        self.clock_violation = Some(format!("{} created at {} / modified {} outside the clock readings [{}, {}]", q, c, m, before, after));
                                    }
                                }
                                if !self.pin_late {
                                    let pin = cfb::verif::system_time_from_timestamp(PIN_TS);
                                    let _ = comp.set_created_time(q, pin);
                                    let _ = comp.set_modified_time(q, pin);
                                }
                            }
                        }
                        ok_unit(r)
                    }
                    ["mkstream", a] => ok_unit(comp.create_stream(p(a)).map(|_| ())),
                    ["mknew", a] => ok_unit(comp.create_new_stream(p(a)).map(|_| ())),
                    ["put", a, h] => {
                        let data = unhex(h);
                        res(comp.create_stream(p(a)).and_then(|mut s| {
                            s.write_all(&data)?;
                            s.flush()?;
                            Ok("ok".to_string())
                        }))
                    }
                    ["get", a] => res(comp.open_stream(p(a)).and_then(|mut s| {
                        let mut v = Vec::new();
                        s.read_to_end(&mut v)?;
                        Ok(format!("ok {}", hex(&v)))
                    })),
                    ["open", a] => res(comp.open_stream(p(a)).map(|s| format!("ok {}", s.len()))),
                    ["rm", a] => ok_unit(comp.remove_stream(p(a))),
                    ["rmdir", a] => ok_unit(comp.remove_storage(p(a))),
                    ["rmall", a] => ok_unit(comp.remove_storage_all(p(a))),
                    ["exists", a] => format!("ok {}", comp.exists(p(a))),
                    ["isstream", a] => format!("ok {}", comp.is_stream(p(a))),
                    ["isstorage", a] => format!("ok {}", comp.is_storage(p(a))),
                    ["entry", a] => res(comp.entry(p(a)).map(|e| format!("ok {}", render_entry(&e)))),
                    ["rootentry"] => format!("ok {}", render_entry(&comp.root_entry())),
                    ["ls", a] => res(comp.read_storage(p(a)).map(|it| format!("ok {}", render_list(it)))),
                    ["lsroot"] => format!("ok {}", render_list(comp.read_root_storage())),
                    ["walk"] => format!("ok {}", render_list(comp.walk())),
                    ["walkfrom", a] => res(comp.walk_storage(p(a)).map(|it| format!("ok {}", render_list(it)))),
                    ["setbits", a, b] => ok_unit(comp.set_state_bits(p(a), b.parse().unwrap())),
                    ["setclsid", a, h] => {
                        let b = unhex(h);
                        let mut arr = [0u8; 16];
                        arr.copy_from_slice(&b);
                        ok_unit(comp.set_storage_clsid(p(a), uuid::Uuid::from_bytes(arr)))
                    }
                    ["setctime", a, s, n] => match mk_time(s.parse().unwrap(), n.parse().unwrap()) {
                        Some(tm) => ok_unit(comp.set_created_time(p(a), tm)),
                        None => "unrepresentable".into(),
                    },
                    ["setmtime", a, s, n] => match mk_time(s.parse().unwrap(), n.parse().unwrap()) {
                        Some(tm) => ok_unit(comp.set_modified_time(p(a), tm)),
                        None => "unrepresentable".into(),
                    },
                    ["flush"] => ok_unit(comp.flush()),
                    ["hopen", id, a] => {
                        let r = comp.open_stream(p(a));
                        match r {
                            Ok(s) => {
                                let l = s.len();
                                self.handles.insert(id.parse().unwrap(), s);
                                format!("ok {}", l)
                            }
                            Err(e) => format!("err {}", err_kind(&e)),
                        }
                    }
                    ["hcreate", id, a] | ["hnew", id, a] => {
                        let r = if t[0] == "hcreate" { comp.create_stream(p(a)) } else { comp.create_new_stream(p(a)) };
                        match r {
                            Ok(s) => {
                                let l = s.len();
                                self.handles.insert(id.parse().unwrap(), s);
                                format!("ok {}", l)
                            }
                            Err(e) => format!("err {}", err_kind(&e)),
                        }
                    }
                    ["hwrite", id, h] => match self.handles.get_mut(&id.parse().unwrap()) {
                        Some(s) => ok_unit(s.write_all(&unhex(h))),
                        None => "err nohandle".into(),
                    },
                    ["hread", id, n] => match self.handles.get_mut(&id.parse().unwrap()) {
                        Some(s) => {
                            // the whole request is offered to `read` as one slice (read_to_end would probe with 32
                            // bytes first: a reader that treats large requests specially would never see one)
                            let n: usize = n.parse().unwrap();
                            let mut v = vec![0u8; n.min(1 << 22)];
                            let mut got = 0usize;
                            let r = loop {
                                if got == v.len() {
                                    break Ok(());
                                }
                                match s.read(&mut v[got..]) {
                                    Ok(0) => break Ok(()),
                                    Ok(k) => got += k,
                                    Err(e) if e.kind() == std::io::ErrorKind::Interrupted => continue,
                                    Err(e) => break Err(e),
                                }
                            };
                            v.truncate(got);
                            res(r.map(|_| format!("ok {}", hex(&v))))
                        }
                        None => "err nohandle".into(),
                    },
                    ["hseek", id, n] => match self.handles.get_mut(&id.parse().unwrap()) {
                        Some(s) => res(s.seek(SeekFrom::Start(n.parse().unwrap())).map(|k| format!("ok {}", k))),
                        None => "err nohandle".into(),
                    },
                    ["hseekend", id, d] => match self.handles.get_mut(&id.parse().unwrap()) {
                        Some(s) => res(s.seek(SeekFrom::End(d.parse().unwrap())).map(|k| format!("ok {}", k))),
                        None => "err nohandle".into(),
                    },
                    ["hsetlen", id, n] => match self.handles.get_mut(&id.parse().unwrap()) {
                        Some(s) => ok_unit(s.set_len(n.parse().unwrap())),
                        None => "err nohandle".into(),
                    },
                    ["hflush", id] => match self.handles.get_mut(&id.parse().unwrap()) {
                        Some(s) => ok_unit(s.flush()),
                        None => "err nohandle".into(),
                    },
                    ["hlen", id] => match self.handles.get(&id.parse().unwrap()) {
                        Some(s) => if s.is_empty() != (s.len() == 0) { format!("ok {} !inconsistent:is_empty", s.len()) } else { format!("ok {}", s.len()) },
                        None => "err nohandle".into(),
                    },
                    ["hclose", id] => {
                        self.handles.remove(&id.parse().unwrap());
                        "ok".into()
                    }
                    _ => "bad-op".into(),
                }
            }
        }
    }

    /// Live logical dump: `D{walk listing}{content of every stream in walk order}`.
    pub fn dump(&mut self) -> String {
        let Some(comp) = self.comp.as_mut() else { return "err nofile".into() };
        dump_generic(comp)
    }

    /// `id:slot:total:off:pos:cap:datalen:dirty` of every open handle, by id
    pub fn handle_states(&self) -> String {
        if self.handles.is_empty() {
            return "-".into();
        }
        self.handles
            .iter()
            .map(|(id, s)| {
                let (slot, total, off, pos, cap, dl, _max, dirty) = s.verif_state();
                format!("{}:{}:{}:{}:{}:{}:{}:{}", id, slot, total, off, pos, cap, dl, dirty as u8)
            })
            .collect::<Vec<_>>()
            .join(";")
    }

    /// what a caller can observe of every open handle without touching the file: `id:len:position:dirty`
    pub fn handle_views(&self) -> String {
        self.handles
            .iter()
            .map(|(id, s)| {
                let (_slot, total, off, pos, _cap, _dl, _max, dirty) = s.verif_state();
                format!("{}:{}:{}:{}", id, total, off + pos as u64, dirty as u8)
            })
            .collect::<Vec<_>>()
            .join(";")
    }

    /// Directory table as the library holds it in memory (hook H3), allocated slots only:
    /// `slot:name:type:color:left:right:child:len:bits:clsid:ctime:mtime` joined by `;`
    pub fn dirtable(&self) -> String {
        let Some(comp) = self.comp.as_ref() else { return "-".into() };
        let d = comp.verif_dump();
        let mut v = Vec::new();
        for (i, e) in d.dir_entries.iter().enumerate() {
            if e.obj_type == 0 {
                continue;
            }
            v.push(format!(
                "{}:{}:{}:{}:{}:{}:{}:{}:{}:{}:{}:{}",
                i, enc(&e.name), e.obj_type, e.color, e.left_sibling as i64 as i32, e.right_sibling as i64 as i32, e.child as i64 as i32,
                if i == 0 { 0 } else { e.stream_len }, e.state_bits, hex(&e.clsid), e.creation_time, e.modified_time
            ));
        }
        v.join(";")
    }
}

// ------------------------------------------------------------------------------------------
// the reference model (property oracle): a tree of storages with case-insensitively unique
// names whose leaves are byte vectors.  Written from the property text and the API docs; it
// shares with the library only the upper-casing table (hook H2, an assumption of DESIGN §5).

pub type Key = (usize, Vec<u16>);

pub fn key_of(name: &str) -> Key {
    let n = name.encode_utf16().count();
    let mut v = Vec::new();
    for c in name.chars() {
        let u = crate::names::spec_upper(c);
        let mut b = [0u16; 2];
        v.extend_from_slice(u.encode_utf16(&mut b));
    }
    (n, v)
}

#[derive(Clone, Debug, PartialEq)]
pub struct Meta {
    pub clsid: [u8; 16],
    pub bits: u32,
    pub ctime: u64,
    pub mtime: u64,
}

#[derive(Clone, Debug, PartialEq)]
pub enum RNode {
    Stream { bits: u32, data: Vec<u8> },
    Storage { meta: Meta, kids: BTreeMap<Key, (String, RNode)> },
}

pub struct RefModel {
    pub root: RNode,
    pub live: bool,
    /// open handles: id -> (path of the stream, cursor); writes go straight to the node
    pub handles: BTreeMap<u32, (Vec<String>, usize)>,
    /// handles that may hold unflushed data (listings then show an unspecified length)
    pub dirty: std::collections::BTreeSet<u32>,
}

pub fn valid_name(n: &str) -> bool {
    n.encode_utf16().count() <= 31 && !n.contains(['/', '\\', ':', '!'])
}

/// `None` = the path escapes the root.
pub fn chain_of(path: &str) -> Option<Vec<String>> {
    let mut names: Vec<String> = Vec::new();
    for comp in path.split('/') {
        match comp {
            "" | "." => {}
            ".." => {
                names.pop()?;
            }
            c => names.push(c.to_string()),
        }
    }
    Some(names)
}

fn ts_from(s: i64, n: u32) -> u64 {
    let total = s as i128 * 1_000_000_000 + n as i128;
    let ticks = if total >= 0 { total / 100 } else { -((-total) / 100) };
    (116444736000000000i128 + ticks).clamp(0, u64::MAX as i128) as u64
}

impl RefModel {
    pub fn new() -> RefModel {
        RefModel {
            root: RNode::Storage { meta: Meta { clsid: [0; 16], bits: 0, ctime: 0, mtime: 0 }, kids: BTreeMap::new() },
            live: false,
            handles: BTreeMap::new(),
            dirty: Default::default(),
        }
    }

    fn find<'a>(&'a self, names: &[String]) -> Option<&'a RNode> {
        let mut cur = &self.root;
        for n in names {
            match cur {
                RNode::Storage { kids, .. } => cur = &kids.get(&key_of(n))?.1,
                RNode::Stream { .. } => return None,
            }
        }
        Some(cur)
    }

    fn find_mut<'a>(&'a mut self, names: &[String]) -> Option<&'a mut RNode> {
        let mut cur = &mut self.root;
        for n in names {
            match cur {
                RNode::Storage { kids, .. } => cur = &mut kids.get_mut(&key_of(n))?.1,
                RNode::Stream { .. } => return None,
            }
        }
        Some(cur)
    }

    fn ent(&self, stored_name: &str, path: &str, node: &RNode, is_root: bool) -> String {
        match node {
            RNode::Stream { bits, data } => format!("E({}|{}|stream|{}|{}|{}|0|0)", enc(stored_name), enc(path), data.len(), hex(&[0u8; 16]), bits),
            RNode::Storage { meta, .. } => format!(
                "E({}|{}|{}|0|{}|{}|{}|{})",
                enc(stored_name), enc(path), if is_root { "root" } else { "storage" }, hex(&meta.clsid), meta.bits, meta.ctime, meta.mtime
            ),
        }
    }

    fn join(parent: &str, name: &str) -> String {
        if parent.ends_with('/') { format!("{}{}", parent, name) } else { format!("{}/{}", parent, name) }
    }

    fn canon(names: &[String]) -> String {
        format!("/{}", names.join("/"))
    }

    fn list_kids(&self, node: &RNode, parent_path: &str, recursive: bool, out: &mut Vec<String>) {
        if let RNode::Storage { kids, .. } = node {
            for (_, (name, kid)) in kids.iter() {
                let p = Self::join(parent_path, name);
                out.push(self.ent(name, &p, kid, false));
                if recursive {
                    self.list_kids(kid, &p, true, out);
                }
            }
        }
    }

    fn stored_name(&self, names: &[String]) -> String {
        if names.is_empty() {
            return "Root Entry".into();
        }
        match self.find(&names[..names.len() - 1]) {
            Some(RNode::Storage { kids, .. }) => kids.get(&key_of(&names[names.len() - 1])).map(|x| x.0.clone()).unwrap_or_default(),
            _ => String::new(),
        }
    }

    /// Expected result of one op according to the abstract model, or `None` where the property
    /// does not fix the result (handles, snapshots, unrepresentable instants).
    pub fn apply(&mut self, line: &str) -> Option<String> {
        if line.starts_with("putpat ") {
            let e = expand_putpat(line);
            return self.apply(&e);
        }
        let t: Vec<&str> = line.split_whitespace().collect();
        match t.as_slice() {
            ["create", _] | ["create", _, _] => {
                *self = RefModel::new();
                self.live = true;
                return Some("ok".into());
            }
            ["reopen", _] => {
                self.handles.clear();
                self.dirty.clear();
                return Some("ok".into());
            }
            _ => {}
        }
        if !self.live {
            return None;
        }
        if t[0].starts_with('h') {
            return self.apply_handle(&t);
        }
        // while a handle may hold unflushed data, lengths in listings are not specified
        if !self.dirty.is_empty() && matches!(t[0], "walk" | "ls" | "lsroot" | "walkfrom" | "entry") {
            let _ = self.apply_inner(&t);
            return None;
        }
        self.apply_inner(&t)
    }

    fn apply_handle(&mut self, t: &[&str]) -> Option<String> {
        let id: u32 = t[1].parse().ok()?;
        match t {
            ["hopen", _, a] | ["hcreate", _, a] | ["hnew", _, a] => {
                let path = dec(a);
                let r = match t[0] {
                    "hopen" => self.apply_inner(&["open", a]),
                    "hcreate" => self.apply_inner(&["mkstream", a]),
                    _ => self.apply_inner(&["mknew", a]),
                }?;
                if r.starts_with("ok") {
                    let names = chain_of(&path)?;
                    let len = match self.find(&names) {
                        Some(RNode::Stream { data, .. }) => data.len(),
                        _ => 0,
                    };
                    self.handles.insert(id, (names, 0));
                    self.dirty.remove(&id);
                    Some(format!("ok {}", len))
                } else {
                    Some(r)
                }
            }
            ["hclose", _] => {
                self.handles.remove(&id);
                self.dirty.remove(&id);
                Some("ok".into())
            }
            _ => {
                let (names, cursor) = match self.handles.get(&id) {
                    Some(x) => x.clone(),
                    None => return Some("err nohandle".into()),
                };
                let Some(RNode::Stream { data, .. }) = self.find_mut(&names) else { return None };
                let mut cur = cursor;
                let out = match t {
                    ["hwrite", _, h] => {
                        let bs = unhex(h);
                        let end = cur + bs.len();
                        if data.len() < end {
                            data.resize(end, 0);
                        }
                        data[cur..end].copy_from_slice(&bs);
                        cur = end;
                        if !bs.is_empty() {
                            self.dirty.insert(id);
                        }
                        "ok".to_string()
                    }
                    ["hread", _, n] => {
                        let n: usize = n.parse().unwrap();
                        let end = (cur + n).min(data.len());
                        let bs = data[cur..end].to_vec();
                        cur = end;
                        format!("ok {}", hex(&bs))
                    }
                    ["hseek", _, n] => {
                        let n: usize = n.parse().unwrap();
                        if n <= data.len() {
                            cur = n;
                            format!("ok {}", n)
                        } else {
                            "err invalidInput".to_string()
                        }
                    }
                    ["hsetlen", _, n] => {
                        let n: usize = n.parse().unwrap();
                        data.resize(n, 0);
                        cur = cur.min(n);
                        "ok".to_string()
                    }
                    ["hflush", _] => {
                        self.dirty.remove(&id);
                        "ok".to_string()
                    }
                    ["hlen", _] => format!("ok {}", data.len()),
                    _ => return None,
                };
                self.handles.insert(id, (names, cur));
                Some(out)
            }
        }
    }

    fn apply_inner(&mut self, t: &[&str]) -> Option<String> {
        {
        }
        let path = if t.len() > 1 { dec(t[1]) } else { String::new() };
        let names = chain_of(&path);
        let boolean = |b: bool| Some(format!("ok {}", b));
        Some(match t {
            ["exists", _] => return boolean(names.map(|n| self.find(&n).is_some()).unwrap_or(false)),
            ["isstream", _] => return boolean(names.map(|n| matches!(self.find(&n), Some(RNode::Stream { .. }))).unwrap_or(false)),
            ["isstorage", _] => return boolean(names.map(|n| matches!(self.find(&n), Some(RNode::Storage { .. }))).unwrap_or(false)),
            ["rootentry"] => format!("ok {}", self.ent("Root Entry", "/", &self.root, true)),
            ["lsroot"] => {
                let mut v = Vec::new();
                self.list_kids(&self.root, "/", false, &mut v);
                format!("ok [{}]", v.join(","))
            }
            ["walk"] => {
                let mut v = vec![self.ent("Root Entry", "/", &self.root, true)];
                self.list_kids(&self.root, "/", true, &mut v);
                format!("ok [{}]", v.join(","))
            }
            ["mkdir", _] | ["mkstream", _] | ["mknew", _] | ["put", _, _] | ["mkdirs", _] => {
                let Some(names) = names else { return Some("err invalidInput".into()) };
                if names.iter().any(|n| !valid_name(n)) {
                    return Some("err invalidInput".into());
                }
                let is_dir = t[0] == "mkdir";
                if t[0] == "mkdirs" {
                    // every prefix that is not a storage yet is created
                    for l in 1..=names.len() {
                        match self.find(&names[..l]) {
                            Some(RNode::Storage { .. }) => continue,
                            Some(RNode::Stream { .. }) => return Some("err alreadyExists".into()),
                            None => {}
                        }
                        match self.find_mut(&names[..l - 1]) {
                            Some(RNode::Storage { kids, .. }) => {
                                kids.insert(key_of(&names[l - 1]), (names[l - 1].clone(), RNode::Storage { meta: Meta { clsid: [0; 16], bits: 0, ctime: PIN_TS, mtime: PIN_TS }, kids: BTreeMap::new() }));
                            }
                            _ => return Some("err notFound".into()),
                        }
                    }
                    return Some("ok".into());
                }
                match self.find(&names) {
                    Some(RNode::Storage { .. }) => return Some("err alreadyExists".into()),
                    Some(RNode::Stream { .. }) => {
                        if is_dir || t[0] == "mknew" {
                            return Some("err alreadyExists".into());
                        }
                        let data = if t[0] == "put" { unhex(t[2]) } else { Vec::new() };
                        if let Some(RNode::Stream { data: d, .. }) = self.find_mut(&names) {
                            *d = data;
                        }
                        return Some("ok".into());
                    }
                    None => {}
                }
                if names.is_empty() {
                    return Some("err alreadyExists".into());
                }
                let (last, parent) = names.split_last().unwrap();
                match self.find_mut(parent) {
                    Some(RNode::Storage { kids, .. }) => {
                        let node = if is_dir {
                            RNode::Storage { meta: Meta { clsid: [0; 16], bits: 0, ctime: PIN_TS, mtime: PIN_TS }, kids: BTreeMap::new() }
                        } else {
                            RNode::Stream { bits: 0, data: if t[0] == "put" { unhex(t[2]) } else { Vec::new() } }
                        };
                        kids.insert(key_of(last), (last.clone(), node));
                        "ok".into()
                    }
                    _ => "err notFound".into(),
                }
            }
            ["get", _] | ["open", _] => {
                let Some(names) = names else { return Some("err invalidInput".into()) };
                match self.find(&names) {
                    None => "err notFound".into(),
                    Some(RNode::Storage { .. }) => "err invalidInput".into(),
                    Some(RNode::Stream { data, .. }) => {
                        if t[0] == "get" { format!("ok {}", hex(data)) } else { format!("ok {}", data.len()) }
                    }
                }
            }
            ["rm", _] | ["rmdir", _] => {
                let Some(names) = names else { return Some("err invalidInput".into()) };
                let want_stream = t[0] == "rm";
                match self.find(&names) {
                    None => return Some("err notFound".into()),
                    Some(RNode::Stream { .. }) if !want_stream => return Some("err invalidInput".into()),
                    Some(RNode::Storage { kids, .. }) => {
                        if want_stream || names.is_empty() || !kids.is_empty() {
                            return Some("err invalidInput".into());
                        }
                    }
                    _ => {}
                }
                let (last, parent) = names.split_last().unwrap();
                if let Some(RNode::Storage { kids, .. }) = self.find_mut(parent) {
                    kids.remove(&key_of(last));
                }
                "ok".into()
            }
            ["rmall", _] => {
                let Some(names) = names else { return Some("err invalidInput".into()) };
                if self.find(&names).is_none() {
                    return Some("err notFound".into());
                }
                if names.is_empty() {
                    if let RNode::Storage { kids, .. } = &mut self.root {
                        kids.clear();
                    }
                } else {
                    let (last, parent) = names.split_last().unwrap();
                    if let Some(RNode::Storage { kids, .. }) = self.find_mut(parent) {
                        kids.remove(&key_of(last));
                    }
                }
                "ok".into()
            }
            ["entry", _] => {
                let Some(names) = names else { return Some("err invalidInput".into()) };
                match self.find(&names) {
                    None => "err notFound".into(),
                    Some(n) => format!("ok {}", self.ent(&self.stored_name(&names), &Self::canon(&names), n, names.is_empty())),
                }
            }
            ["ls", _] => {
                let Some(names) = names else { return Some("err invalidInput".into()) };
                match self.find(&names) {
                    None => "err notFound".into(),
                    Some(RNode::Stream { .. }) => "err invalidInput".into(),
                    Some(n) => {
                        let mut v = Vec::new();
                        self.list_kids(n, &Self::canon(&names), false, &mut v);
                        format!("ok [{}]", v.join(","))
                    }
                }
            }
            ["walkfrom", _] => {
                let Some(names) = names else { return Some("err invalidInput".into()) };
                match self.find(&names) {
                    None => "err notFound".into(),
                    Some(n) => {
                        // the entry itself is listed under the caller's spelling of its parent + its stored name
                        let stored = self.stored_name(&names);
                        let own = if names.is_empty() { "/".to_string() } else { Self::join(&Self::canon(&names[..names.len() - 1]), &stored) };
                        let mut v = vec![self.ent(&stored, &own, n, names.is_empty())];
                        self.list_kids(n, &own, true, &mut v);
                        format!("ok [{}]", v.join(","))
                    }
                }
            }
            ["setbits", _, b] => {
                let Some(names) = names else { return Some("err invalidInput".into()) };
                let b: u32 = b.parse().unwrap();
                match self.find_mut(&names) {
                    None => "err notFound".into(),
                    Some(RNode::Stream { bits, .. }) => { *bits = b; "ok".into() }
                    Some(RNode::Storage { meta, .. }) => { meta.bits = b; "ok".into() }
                }
            }
            ["setclsid", _, h] => {
                let Some(names) = names else { return Some("err invalidInput".into()) };
                match self.find_mut(&names) {
                    None => "err notFound".into(),
                    Some(RNode::Stream { .. }) => "err invalidInput".into(),
                    Some(RNode::Storage { meta, .. }) => { meta.clsid.copy_from_slice(&unhex(h)); "ok".into() }
                }
            }
            ["setctime", _, s, n] | ["setmtime", _, s, n] => {
                let (s, n): (i64, u32) = (s.parse().unwrap(), n.parse().unwrap());
                if mk_time(s, n).is_none() {
                    return None;
                }
                let Some(names) = names else { return Some("err invalidInput".into()) };
                let v = ts_from(s, n);
                match self.find_mut(&names) {
                    None => "err notFound".into(),
                    Some(RNode::Stream { .. }) => "ok".into(),
                    Some(RNode::Storage { meta, .. }) => {
                        if t[0] == "setctime" { meta.ctime = v } else { meta.mtime = v }
                        "ok".into()
                    }
                }
            }
            ["settsraw", _, c, m] => {
                // (layout generator only) raw FILETIME values of a storage
                let Some(names) = names else { return Some("err invalidInput".into()) };
                match self.find_mut(&names) {
                    Some(RNode::Storage { meta, .. }) => {
                        meta.ctime = c.parse().unwrap();
                        meta.mtime = m.parse().unwrap();
                        "ok".into()
                    }
                    _ => "err notFound".into(),
                }
            }
            ["flush"] => "ok".into(),
            _ => return None,
        })
    }

    /// Same format as `Real::dump`.
    pub fn dump(&self) -> String {
        let mut v = vec![self.ent("Root Entry", "/", &self.root, true)];
        self.list_kids(&self.root, "/", true, &mut v);
        let mut s = format!("ok [{}]", v.join(","));
        fn streams(n: &RNode, out: &mut String) {
            if let RNode::Storage { kids, .. } = n {
                for (_, (_, k)) in kids.iter() {
                    match k {
                        RNode::Stream { data, .. } => out.push_str(&format!(" {}", hex(data))),
                        s => streams(s, out),
                    }
                }
            }
        }
        streams(&self.root, &mut s);
        s
    }

    /// current length of the stream a handle is bound to (through the handle, unflushed data included)
    pub fn handle_len(&self, id: u32) -> Option<usize> {
        let (names, _) = self.handles.get(&id)?;
        match self.find(names) {
            Some(RNode::Stream { data, .. }) => Some(data.len()),
            _ => None,
        }
    }

    pub fn any_dirty(&self) -> bool {
        !self.dirty.is_empty()
    }

    pub fn all_paths(&self) -> Vec<(String, bool)> {
        fn go(n: &RNode, p: &str, out: &mut Vec<(String, bool)>) {
            if let RNode::Storage { kids, .. } = n {
                for (_, (name, k)) in kids.iter() {
                    let q = RefModel::join(p, name);
                    out.push((q.clone(), matches!(k, RNode::Stream { .. })));
                    go(k, &q, out);
                }
            }
        }
        let mut v = Vec::new();
        go(&self.root, "/", &mut v);
        v
    }
}

pub fn path_of(t: &[&str]) -> String {
    if t.len() > 1 { dec(t[1]) } else { String::new() }
}

pub fn is_path(_p: &Path) -> bool {
    true
}
